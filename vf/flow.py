"""ODE flows: uninterpreted functions in symbolic mode, closed forms in concrete mode; scipy stubs.

Stub contract = scipy's documented one:
  solve_ivp(fun, y0, t_span, t_eval): ValueError unless t_eval is strictly increasing and inside
  t_span; returns t = t_eval, y_j(t_i) = Flow_j(parameters of `fun` at call time, y0, t_span[0], t_i),
  Flow(.., t0, t0) = y0.
"""
from __future__ import annotations

import math

import z3

from symlift import core as S
from symlift.core import SymReal
from vf.common import as_term


class FlowModel:
    """A small ODE model family with a closed-form solution (concrete mode) / a UF flow (symbolic)."""

    def __init__(self, kind):
        self.readout = kind.endswith("_ro")  # same dynamics, the model additionally carries a readout
        kind = kind[:-3] if self.readout else kind
        self.kind = kind
        self.autonomous = kind != "timedep"

    # -- model construction -----------------------------------------------------------
    def build(self, ctx, prefix=""):
        from mxlpy import Model
        from vf import ratefns as R

        m = Model()
        if self.kind == "decay":
            m.add_parameter("k", ctx.real(prefix + "p_k"))
            m.add_variable("x", ctx.real(prefix + "i_x"))
            m.add_reaction("v", R.mass_action_1s, args=["x", "k"], stoichiometry={"x": -1})
        elif self.kind == "chain":
            m.add_parameter("k1", ctx.real(prefix + "p_k1"))
            m.add_parameter("k2", ctx.real(prefix + "p_k2"))
            m.add_variable("x", ctx.real(prefix + "i_x"))
            m.add_variable("y", ctx.real(prefix + "i_y"))
            m.add_reaction("v1", R.mass_action_1s, args=["x", "k1"], stoichiometry={"x": -1, "y": 1})
            m.add_reaction("v2", R.mass_action_1s, args=["y", "k2"], stoichiometry={"y": -1})
        elif self.kind == "timedep":
            m.add_parameter("k", ctx.real(prefix + "p_k"))
            m.add_variable("x", ctx.real(prefix + "i_x"))
            m.add_reaction("v", R.ramp, args=["k", "time"], stoichiometry={"x": 1})
        elif self.kind == "influx":  # dx/dt = k_in - k*x (unique stable steady state k_in/k)
            m.add_parameter("kin", ctx.real(prefix + "p_kin"))
            m.add_parameter("k", ctx.real(prefix + "p_k"))
            m.add_variable("x", ctx.real(prefix + "i_x"))
            m.add_reaction("vin", R.mass_action_0s, args=["kin"], stoichiometry={"x": 1})
            m.add_reaction("v", R.mass_action_1s, args=["x", "k"], stoichiometry={"x": -1})
        elif self.kind == "moiety":  # closed a <-> b: the steady state depends on the start state (conserved total)
            m.add_parameter("kf", ctx.real(prefix + "p_kf"))
            m.add_parameter("kr", ctx.real(prefix + "p_kr"))
            m.add_variable("a", ctx.real(prefix + "i_a"))
            m.add_variable("b", ctx.real(prefix + "i_b"))
            m.add_reaction("vf", R.mass_action_1s, args=["a", "kf"], stoichiometry={"a": -1, "b": 1})
            m.add_reaction("vr", R.mass_action_1s, args=["b", "kr"], stoichiometry={"b": -1, "a": 1})
        elif self.kind == "ia_decay":  # parameter defined by an initial assignment from a variable
            from mxlpy.types import InitialAssignment

            m.add_parameter("kia", InitialAssignment(fn=R.twice, args=["x"]))
            m.add_variable("x", ctx.real(prefix + "i_x"))
            m.add_reaction("v", R.mass_action_1s, args=["x", "kia"], stoichiometry={"x": -1})
        else:
            raise ValueError(self.kind)
        if self.readout:
            m.add_readout("total", R.twice, args=[m.get_variable_names()[0]])
        return m

    # -- the flow -----------------------------------------------------------------------
    def flow(self, pvals, y0, t0, t, symbolic):
        """State at time t of the solution through (t0, y0) under parameter values pvals (dict)."""
        if symbolic:
            dt = as_term(t) - as_term(t0)
            if z3.is_rational_value(z3.simplify(dt)) and z3.simplify(dt).numerator_as_long() == 0:
                return list(y0)
            ps = [as_term(v) for v in pvals.values()]
            ys = [as_term(v) for v in y0]
            args = ps + ys + ([dt] if self.autonomous else [as_term(t0), as_term(t)])
            return [SymReal(S.uf(f"flow_{self.kind}_{j}", len(args))(*args)) for j in range(len(y0))]
        return self.closed_form(pvals, [float(v) for v in y0], float(t0), float(t))

    def closed_form(self, p, y0, t0, t):
        dt = t - t0
        if self.kind == "decay":
            return [y0[0] * _exp(-p["k"] * dt)]
        if self.kind == "ia_decay":
            return [y0[0] * _exp(-p["kia"] * dt)]
        if self.kind == "timedep":
            return [y0[0] + p["k"] * (t * t - t0 * t0) / 2]
        if self.kind == "influx":
            k, kin = p["k"], p["kin"]
            if k == 0:
                return [y0[0] + kin * dt]
            ss = kin / k
            return [ss + (y0[0] - ss) * _exp(-k * dt)]
        if self.kind == "moiety":
            kf, kr = p["kf"], p["kr"]
            tot = y0[0] + y0[1]
            if kf + kr == 0:
                return list(y0)
            a_ss = tot * kr / (kf + kr)
            a = a_ss + (y0[0] - a_ss) * _exp(-(kf + kr) * dt)
            return [a, tot - a]
        if self.kind == "chain":
            k1, k2 = p["k1"], p["k2"]
            x = y0[0] * _exp(-k1 * dt)
            if abs(k1 - k2) < 1e-12:
                y = (y0[1] + k1 * y0[0] * dt) * _exp(-k2 * dt)
            else:
                y = y0[1] * _exp(-k2 * dt) + y0[0] * k1 / (k2 - k1) * (_exp(-k1 * dt) - _exp(-k2 * dt))
            return [x, y]
        raise ValueError(self.kind)


def _exp(x):
    try:
        return math.exp(x)
    except OverflowError:
        return float("inf")


def unshift(fun):
    """(model, shift) of a right-hand side: the model itself, or a wrapper that evaluates it at time + shift."""
    if not hasattr(fun, "get_parameter_values") and hasattr(fun, "model") and hasattr(fun, "shift"):
        return fun.model, fun.shift
    return fun, 0.0


def param_values_of(fun):
    """Parameter values in force: everything the model treats as a parameter at call time."""
    fun, _ = unshift(fun)
    if hasattr(fun, "get_parameter_values"):
        cache = fun._cache if getattr(fun, "_cache", None) is not None else fun._create_cache()  # noqa: SLF001
        return {k: cache.all_parameter_values[k] for k in sorted(cache.all_parameter_values)}
    return {}


class _Res:
    pass


class StubSPI:
    """Replacement for the `scipy.integrate` module object inside mxlpy.integrators.int_scipy."""

    def __init__(self, fm: FlowModel, symbolic: bool, fail_at=None):
        self.fm = fm
        self.symbolic = symbolic
        self.calls = []
        self.fail_at = fail_at
        self.fail_if = None
        self.ode_steps_to_converge = 2
        self.ode_instances = []

    # scipy.integrate.solve_ivp
    def solve_ivp(self, fun, t_span, y0, method="RK45", t_eval=None, jac=None, atol=None, rtol=None, **kw):
        t0, tf = t_span
        t_eval = list(t_eval)
        y0 = list(y0)
        # documented preconditions
        for t in t_eval:
            if bool(t < t0) or bool(t > tf):
                raise ValueError("Values in `t_eval` are not within `t_span`.")
        for a, b in zip(t_eval, t_eval[1:]):
            if bool(b <= a):
                raise ValueError("Values in `t_eval` are not properly sorted.")
        pvals = param_values_of(fun)
        self.calls.append({"y0": y0, "t_span": (t0, tf), "t_eval": t_eval, "p": pvals, "jac": jac, "method": method})
        r = _Res()
        if (self.fail_at is not None and len(self.calls) - 1 == self.fail_at) or (
            self.fail_if is not None and self.fail_if(pvals, y0)
        ):
            r.success = False
            r.t = []
            r.y = []
            return r
        r.success = True
        r.t = t_eval
        _, shift = unshift(fun)  # the integrator's clock may start at zero again; the flow is that of the model in absolute time
        cols = [self.fm.flow(pvals, y0, t0 + shift, t + shift, self.symbolic) for t in t_eval]
        r.y = [[c[j] for c in cols] for j in range(len(y0))]
        return r

    # scipy.integrate.ode
    def ode(self, f, jac=None):
        o = _Ode(self, f)
        self.ode_instances.append(o)
        return o


class _Ode:
    def __init__(self, spi, f):
        self.spi = spi
        self.f = f
        self.y0 = None
        self.t0 = 0.0
        self.n = 0

    def set_integrator(self, name, **kw):
        return self

    def set_initial_value(self, y, t=0.0):
        self.y0 = list(y)
        self.t0 = t
        return self

    def integrate(self, t):
        import numpy as np

        self.n += 1
        fm = self.spi.fm
        rhs = self.f
        model = getattr(rhs, "__self__", None)
        # the lambda closes over the integrator; recover the model through its closure
        pvals = {}
        try:
            for c in rhs.__closure__ or ():
                obj = c.cell_contents
                if hasattr(obj, "rhs") and hasattr(unshift(obj.rhs)[0], "get_parameter_values"):
                    pvals = param_values_of(obj.rhs)
        except Exception:  # noqa: BLE001
            pass
        if self.spi.fail_if is not None and self.spi.fail_if(pvals, self.y0):
            # an integration that never settles: the state keeps moving by 1 per step
            return np.array([v + self.n for v in self.y0], dtype=object if self.spi.symbolic else float)
        if self.spi.symbolic:
            if self.n >= self.spi.ode_steps_to_converge:
                y = self.last
            else:
                y = fm.flow(pvals, self.y0, self.t0, t, True)
            self.last = y
            return np.array(y, dtype=object)
        y = fm.closed_form(pvals, [float(v) for v in self.y0], float(self.t0), float(t))
        return np.array(y, dtype=float)
