"""Functions that share their __name__ with functions of mod_a (C11: same-named functions)."""


def scale(x, k):
    return x / k


def combine(a, b):
    return a * b
