"""Second definition of `rate`: same module name and qualified name as redef_v1.rate, another body (a re-defined function)."""


def rate(s, k):
    return s / (k + s)
