"""Functions that share their __name__ with functions of mod_b (C11: same-named functions)."""


def scale(x, k):
    return k * x


def combine(a, b):
    return a + 2 * b
