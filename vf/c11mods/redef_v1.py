"""First definition of `rate` (loaded under the module name c11_redef; see redef_v2.py)."""


def rate(s, k):
    return k * s
