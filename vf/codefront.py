"""Front ends for the stand-alone model functions emitted by mxlpy.meta.codegen_model (C07).

Python is exec'd. TypeScript, Rust and Julia are parsed with a strict statement grammar (one regex per
statement form the generator can emit) and a small Pratt parser for the expression subset sympy's
printers produce; anything else is "not well-formed". Expressions are evaluated over symlift values.
"""
from __future__ import annotations

import re
from fractions import Fraction

from symlift.proxies import MATH


class NotWellFormed(Exception):
    pass


TOKEN = re.compile(
    r"\s*(?:(?P<num>(?:\d+\.\d*|\.\d+|\d+)(?:[eE][+-]?\d+)?)(?:_?f64)?"
    r"|(?P<id>[A-Za-z_][A-Za-z_0-9]*(?:::[A-Za-z_][A-Za-z_0-9]*)*)"
    r"|(?P<op>\*\*|\.\*|\./|\.\^|\.\+|\.-|<=|>=|==|!=|&&|\|\||[-+*/^<>()?:,.{}!\[\]]))"
)


def tokenize(s):
    out = []
    pos = 0
    s = s.strip()
    while pos < len(s):
        m = TOKEN.match(s, pos)
        if not m or m.end() == pos:
            raise NotWellFormed(f"cannot tokenize at {s[pos:pos + 20]!r}")
        pos = m.end()
        if m.group("num") is not None:
            out.append(("num", m.group("num")))
        elif m.group("id") is not None:
            out.append(("id", m.group("id")))
        else:
            out.append(("op", m.group("op")))
    return out


class Parser:
    """expr := ternary ; precedence climbing; language quirks switched by `lang`."""

    def __init__(self, toks, lang):
        self.t = toks
        self.i = 0
        self.lang = lang

    def peek(self):
        return self.t[self.i] if self.i < len(self.t) else ("eof", "")

    def next(self):
        tok = self.peek()
        self.i += 1
        return tok

    def expect(self, v):
        tok = self.next()
        if tok[1] != v:
            raise NotWellFormed(f"expected {v!r}, got {tok[1]!r}")

    def parse(self):
        e = self.ternary()
        if self.peek()[0] != "eof":
            raise NotWellFormed(f"trailing tokens {self.t[self.i:self.i + 4]}")
        return e

    def ternary(self):
        if self.lang == "rs" and self.peek() == ("id", "if"):
            self.next()
            c = self.ternary()
            self.expect("{")
            a = self.ternary()
            self.expect("}")
            if self.next() != ("id", "else"):
                raise NotWellFormed("if without else")
            if self.peek() == ("id", "if"):
                b = self.ternary()
            else:
                self.expect("{")
                b = self.ternary()
                self.expect("}")
            return ("if", c, a, b)
        c = self.orx()
        if self.peek() == ("op", "?"):
            self.next()
            a = self.ternary()
            self.expect(":")
            b = self.ternary()
            return ("if", c, a, b)
        return c

    def orx(self):
        e = self.andx()
        while self.peek() == ("op", "||"):
            self.next()
            e = ("or", e, self.andx())
        return e

    def andx(self):
        e = self.cmp()
        while self.peek() == ("op", "&&"):
            self.next()
            e = ("and", e, self.cmp())
        return e

    def cmp(self):
        e = self.add()
        if self.peek()[0] == "op" and self.peek()[1] in ("<", "<=", ">", ">=", "==", "!="):
            op = self.next()[1]
            e = ("cmp", op, e, self.add())
        return e

    def add(self):
        e = self.mul()
        while self.peek()[0] == "op" and self.peek()[1] in ("+", "-", ".+", ".-"):
            op = self.next()[1].lstrip(".")
            e = (op, e, self.mul())
        return e

    def mul(self):
        e = self.unary()
        while self.peek()[0] == "op" and self.peek()[1] in ("*", "/", ".*", "./"):
            op = self.next()[1].lstrip(".")
            e = (op, e, self.unary())
        return e

    def unary(self):
        if self.peek() == ("op", "-"):
            self.next()
            return ("neg", self.unary())
        if self.peek() == ("op", "+"):
            self.next()
            return self.unary()
        if self.peek() == ("op", "!"):
            self.next()
            return ("not", self.unary())
        return self.power()

    def power(self):
        b = self.postfix()
        if self.peek()[0] == "op" and self.peek()[1] in ("**", "^", ".^"):
            if self.peek()[1] == "**" and self.lang != "py":
                raise NotWellFormed("** is not an operator of this language")
            self.next()
            e = self.unary()  # right associative
            return ("pow", b, e)
        return b

    def postfix(self):
        e = self.atom()
        while self.peek() == ("op", "."):  # rust method call x.powi(2)
            self.next()
            name = self.next()
            if name[0] != "id":
                raise NotWellFormed("method name expected")
            self.expect("(")
            args = self.args()
            e = ("method", name[1], e, args)
        return e

    def args(self):
        args = []
        if self.peek() == ("op", ")"):
            self.next()
            return args
        while True:
            args.append(self.ternary())
            tok = self.next()
            if tok == ("op", ")"):
                return args
            if tok != ("op", ","):
                raise NotWellFormed("expected , or )")

    def atom(self):
        tok = self.next()
        if tok[0] == "num":
            return ("num", tok[1])
        if tok == ("op", "("):
            e = self.ternary()
            self.expect(")")
            return e
        if tok[0] == "id":
            name = tok[1]
            # dotted names: Math.pow, std::f64::consts::PI
            while self.peek() == ("op", ".") and self.i + 1 < len(self.t) and self.t[self.i + 1][0] == "id" and name in ("Math", "math", "Base"):
                self.next()
                name += "." + self.next()[1]
            if self.peek() == ("op", "("):
                self.next()
                return ("call", name, self.args())
            return ("var", name)
        raise NotWellFormed(f"unexpected token {tok}")


CALLS = {
    "Math.pow": lambda a, b: _pow(a, b),
    "Math.exp": MATH.exp, "Math.log": MATH.log, "Math.sqrt": MATH.sqrt, "Math.sin": MATH.sin, "Math.cos": MATH.cos,
    "Math.abs": abs, "exp": MATH.exp, "log": MATH.log, "sqrt": MATH.sqrt, "abs": abs, "sin": MATH.sin, "cos": MATH.cos,
    "Math.max": lambda *a: _fold(a, True), "Math.min": lambda *a: _fold(a, False), "max": lambda *a: _fold(a, True), "min": lambda *a: _fold(a, False),
}
METHODS = {
    "powi": lambda x, n: _pow(x, n), "powf": lambda x, n: _pow(x, n), "exp": MATH.exp, "ln": MATH.log, "sqrt": MATH.sqrt,
    "abs": abs, "sin": MATH.sin, "cos": MATH.cos, "recip": lambda x: 1 / x,
    "max": lambda a, b: _fold((a, b), True), "min": lambda a, b: _fold((a, b), False),
}


def _fold(vals, is_max):
    r = vals[0]
    for v in vals[1:]:
        r = v if bool(v > r if is_max else v < r) else r
    return r


def _pow(a, b):
    if isinstance(b, Fraction) and b.denominator == 1:
        b = int(b)
    if isinstance(b, float) and b == int(b):
        b = int(b)
    if isinstance(b, int):
        return a**b if b >= 0 else 1 / (a ** (-b))
    return MATH.pow(a, b)


def evaluate(ast, env):
    k = ast[0]
    if k == "num":
        return Fraction(ast[1]) if not any(c in ast[1] for c in "eE") else Fraction(float(ast[1]))
    if k == "var":
        if ast[1] not in env:
            raise NotWellFormed(f"identifier {ast[1]!r} used before definition")
        return env[ast[1]]
    if k == "neg":
        return -evaluate(ast[1], env)
    if k in ("+", "-", "*", "/"):
        a, b = evaluate(ast[1], env), evaluate(ast[2], env)
        return a + b if k == "+" else a - b if k == "-" else a * b if k == "*" else a / b
    if k == "pow":
        return _pow(evaluate(ast[1], env), evaluate(ast[2], env))
    if k == "if":
        return evaluate(ast[2], env) if bool(evaluate(ast[1], env)) else evaluate(ast[3], env)
    if k == "cmp":
        a, b = evaluate(ast[2], env), evaluate(ast[3], env)
        return {"<": lambda: a < b, "<=": lambda: a <= b, ">": lambda: a > b, ">=": lambda: a >= b, "==": lambda: a == b, "!=": lambda: a != b}[ast[1]]()
    if k == "and":
        return bool(evaluate(ast[1], env)) and bool(evaluate(ast[2], env))
    if k == "or":
        return bool(evaluate(ast[1], env)) or bool(evaluate(ast[2], env))
    if k == "not":
        return not bool(evaluate(ast[1], env))
    if k == "call":
        f = CALLS.get(ast[1])
        if f is None:
            raise NotWellFormed(f"unknown function {ast[1]}")
        return f(*[evaluate(a, env) for a in ast[2]])
    if k == "method":
        f = METHODS.get(ast[1])
        if f is None:
            raise NotWellFormed(f"unknown method {ast[1]}")
        return f(evaluate(ast[2], env), *[evaluate(a, env) for a in ast[3]])
    raise NotWellFormed(str(ast))


IDENT = r"[A-Za-z_][A-Za-z_0-9]*"
GRAMMAR = {
    "ts": dict(
        header=re.compile(rf"^function model\(time: number, variables: number\[\](?P<free>(?:, {IDENT}: number)*)\) \{{$"),
        free=re.compile(rf"({IDENT}): number"),
        unpack=re.compile(rf"^\s*(?:let|const) \[(?P<names>{IDENT}(?:, {IDENT})*)\] = variables;$"),
        assign=re.compile(rf"^\s*(?:let|const) (?P<k>{IDENT})(?:: number)? = (?P<v>.+);$", re.S),
        ret=re.compile(r"^\s*return \[(?P<r>.*)\];$", re.S),
        end=re.compile(r"^\};$"),
    ),
    "rs": dict(
        header=re.compile(rf"^fn model\(time: f64, variables: &\[f64; (?P<n>\d+)\](?P<free>(?:, {IDENT}: f64)*)\) -> \[f64; (?P<n2>\d+)\] \{{$"),
        free=re.compile(rf"({IDENT}): f64"),
        unpack=re.compile(rf"^\s*let \[(?P<names>{IDENT}(?:, {IDENT})*)\] = \*variables;$"),
        assign=re.compile(rf"^\s*let(?: mut)? (?P<k>{IDENT})(?:: f64)? = (?P<v>.+);$", re.S),
        ret=re.compile(r"^\s*return \[(?P<r>.*)\]$", re.S),
        end=re.compile(r"^\}$"),
    ),
    "jl": dict(
        header=re.compile(rf"^function model\(time, variables(?P<free>(?:, {IDENT})*)\)$"),
        free=re.compile(rf"({IDENT})"),
        unpack=re.compile(rf"^\s*(?P<names>{IDENT}(?:, {IDENT})*),? = variables$"),
        assign=re.compile(rf"^\s*(?P<k>{IDENT}) = (?P<v>.+)$", re.S),
        ret=re.compile(r"^\s*return (?:\[(?P<r>.*)\]|(?P<r2>.*))$", re.S),
        end=re.compile(r"^end$"),
    ),
}


def split_statements(src, lang):
    """Header, body statements (multi-line conditional expressions re-joined), end line."""
    # comments are not code: // and # line comments (and trailing ones) are dropped
    lines = []
    for ln in src.split("\n"):
        ln = re.sub(r"\s+(//|#).*$", "", ln) if not re.match(r"^\s*(//|#)", ln) else ""
        if ln.strip():
            lines.append(ln)
    if len(lines) < 2:
        raise NotWellFormed("too short")
    stmts = [lines[0]]
    cur = ""
    for ln in lines[1:-1]:
        cur = (cur + "\n" + ln) if cur else ln
        depth = cur.count("(") + cur.count("[") + cur.count("{") - cur.count(")") - cur.count("]") - cur.count("}")
        if depth != 0:
            continue
        if lang in ("ts", "rs") and not cur.rstrip().endswith(";") and not (lang == "rs" and re.match(r"^\s*return ", cur)):
            continue
        stmts.append(cur)
        cur = ""
    if cur:
        stmts.append(cur)
    stmts.append(lines[-1])
    return stmts


def run_model(src, lang, n_vars, time, values, free_values):
    """Interpret the emitted model function. Returns the list of returned values.

    Checks: header form, parameter list, destructuring of `variables`, single assignment, definition
    before use, return arity.
    """
    g = GRAMMAR[lang]
    stmts = split_statements(src, lang)
    if not stmts:
        raise NotWellFormed("empty source")
    m = g["header"].match(stmts[0])
    if not m:
        raise NotWellFormed(f"function header not recognised: {stmts[0]!r}")
    free_names = g["free"].findall(m.group("free") or "")
    if lang == "rs" and (int(m.group("n")) != n_vars or int(m.group("n2")) != n_vars):
        raise NotWellFormed("array sizes differ from the number of variables")
    if free_names != list(free_values):
        raise NotWellFormed(f"free parameters {free_names} differ from the requested {list(free_values)}")
    env = {"time": time}
    env.update(free_values)
    body = stmts[1:]
    if not g["end"].match(body[-1].strip()):
        raise NotWellFormed(f"missing end of function: {body[-1]!r}")
    body = body[:-1]
    idx = 0
    if n_vars > 0:
        u = g["unpack"].match(body[0])
        if not u:
            raise NotWellFormed(f"variables are not destructured: {body[0]!r}")
        names = [s.strip() for s in u.group("names").split(",")]
        if len(names) != n_vars:
            raise NotWellFormed("number of destructured names differs from the number of variables")
        for nme, v in zip(names, values):
            env[nme] = v
        idx = 1
    result = None
    for st in body[idx:]:
        r = g["ret"].match(st)
        if r:
            text = r.group("r") if r.group("r") is not None else r.groupdict().get("r2")
            parts = [p for p in (text or "").split(",") if p.strip()] if text and text.strip() != "()" else []
            result = [evaluate(Parser(tokenize(p), lang).parse(), env) for p in parts]
            continue
        if result is not None:
            raise NotWellFormed("statement after return")
        a = g["assign"].match(st)
        if not a:
            raise NotWellFormed(f"statement not recognised: {st[:60]!r}")
        k = a.group("k")
        if k in env:
            raise NotWellFormed(f"{k!r} assigned twice")
        env[k] = evaluate(Parser(tokenize(a.group("v")), lang).parse(), env)
    if result is None:
        raise NotWellFormed("no return statement")
    return result
