"""Evaluate a sympy expression over symlift values (sympy -> z3 through SymReal/SymBool operators).

Piecewise / Min / Max / relational conditions fork through the engine (first-match semantics of
sympy.Piecewise); transcendental functions map to the same uninterpreted functions the lifted Python
code uses (MathProxy), so both sides of an equivalence share them.
"""
from __future__ import annotations

from fractions import Fraction

import sympy

from symlift.core import SymBool, SymReal
from symlift.proxies import MATH


class Undefined(Exception):
    """The expression has no value here (e.g. Piecewise without a matching piece)."""


class Untranslatable(Exception):
    pass


_FUNCS = {
    sympy.exp: MATH.exp,
    sympy.log: MATH.log,
    sympy.sin: MATH.sin,
    sympy.cos: MATH.cos,
    sympy.tan: MATH.tan,
    sympy.tanh: MATH.tanh,
}


def _num(x):
    if isinstance(x, sympy.Integer):
        return int(x)
    if isinstance(x, sympy.Rational):
        return Fraction(int(x.p), int(x.q))
    if isinstance(x, sympy.Float):
        return Fraction(float(x))
    raise Untranslatable(repr(x))


def _b(x):
    if isinstance(x, SymBool):
        return x
    return bool(x)


def ev(expr, env):
    """Value of `expr` (sympy) under env: name -> SymReal | number."""
    if isinstance(expr, (int, float, Fraction)):
        return expr
    if isinstance(expr, sympy.Symbol):
        if expr.name not in env:
            raise Untranslatable(f"free symbol {expr.name}")
        return env[expr.name]
    if expr is sympy.true or expr is True:
        return True
    if expr is sympy.false or expr is False:
        return False
    if isinstance(expr, sympy.Number):
        if expr in (sympy.oo, -sympy.oo, sympy.nan, sympy.zoo):
            raise Untranslatable(repr(expr))
        return _num(expr)
    if isinstance(expr, sympy.NumberSymbol):
        return Fraction(float(expr))
    if isinstance(expr, sympy.Add):
        r = 0
        for a in expr.args:
            r = r + ev(a, env)
        return r
    if isinstance(expr, sympy.Mul):
        r = 1
        for a in expr.args:
            r = r * ev(a, env)
        return r
    if isinstance(expr, sympy.Pow):
        b, e = expr.args
        bv = ev(b, env)
        if isinstance(e, sympy.Integer):
            n = int(e)
            if n >= 0:
                return bv**n
            return 1 / (bv ** (-n))
        if isinstance(e, sympy.Rational) and e == sympy.Rational(1, 2):
            return MATH.sqrt(bv)
        if isinstance(e, sympy.Rational) and e == sympy.Rational(-1, 2):
            return 1 / MATH.sqrt(bv)
        if isinstance(e, sympy.Float) and float(e) == int(float(e)):
            n = int(float(e))
            return bv**n if n >= 0 else 1 / (bv ** (-n))
        evv = ev(e, env)
        if isinstance(bv, SymReal) or isinstance(evv, SymReal):
            return MATH.pow(bv, evv)
        return float(bv) ** float(evv)
    if isinstance(expr, sympy.Piecewise):
        for e, c in expr.args:
            cv = _b(ev(c, env))
            if bool(cv):
                return ev(e, env)
        raise Undefined("no piece matches")
    if isinstance(expr, sympy.core.relational.Relational):
        lhs, rhs = ev(expr.lhs, env), ev(expr.rhs, env)
        op = expr.rel_op
        if op == "<":
            return lhs < rhs
        if op == "<=":
            return lhs <= rhs
        if op == ">":
            return lhs > rhs
        if op == ">=":
            return lhs >= rhs
        if op == "==":
            return lhs == rhs
        if op == "!=":
            return lhs != rhs
        raise Untranslatable(op)
    if isinstance(expr, sympy.And):
        r = True
        for a in expr.args:
            v = _b(ev(a, env))
            r = (r & v) if isinstance(r, SymBool) or isinstance(v, SymBool) else (r and v)
        return r
    if isinstance(expr, sympy.Or):
        r = False
        for a in expr.args:
            v = _b(ev(a, env))
            r = (r | v) if isinstance(r, SymBool) or isinstance(v, SymBool) else (r or v)
        return r
    if isinstance(expr, sympy.Not):
        v = _b(ev(expr.args[0], env))
        return ~v if isinstance(v, SymBool) else (not v)
    if isinstance(expr, sympy.Abs):
        return abs(ev(expr.args[0], env))
    if isinstance(expr, sympy.Max):
        vals = [ev(a, env) for a in expr.args]
        r = vals[0]
        for v in vals[1:]:
            r = v if bool(v > r) else r
        return r
    if isinstance(expr, sympy.Min):
        vals = [ev(a, env) for a in expr.args]
        r = vals[0]
        for v in vals[1:]:
            r = v if bool(v < r) else r
        return r
    if isinstance(expr, sympy.Function) or isinstance(expr, sympy.core.function.Application):
        f = _FUNCS.get(type(expr))
        if f is None:
            raise Untranslatable(f"function {type(expr).__name__}")
        return f(*[ev(a, env) for a in expr.args])
    if isinstance(expr, sympy.Tuple):
        return tuple(ev(a, env) for a in expr.args)
    raise Untranslatable(type(expr).__name__)
