"""Independent demand-driven evaluator of an MxlPy model (the oracle of C01/C02/C03/C13/...).

Reads only the raw declarations (`get_raw_*`), never the model cache or its sort order.
Semantics (C01, C13):
  * parameters with plain values: the value; parameters/variables defined by an initial assignment:
    the assignment's function applied to its arguments evaluated at (declared initial state, t=0);
  * a derived quantity is *parameter-like* iff the transitive closure of its arguments consists of
    parameters only; parameter-like quantities keep their t=0 value at every state;
  * everything else (derived, reaction rates, surrogate outputs, computed coefficients) is its function
    applied to its arguments' values at the supplied state and time;
  * dx_i/dt = sum_r n_ir * v_r over reactions and surrogate fluxes.
"""
from __future__ import annotations

from mxlpy.types import Derived, InitialAssignment


class CycleOrMissing(Exception):
    pass


class Decl:
    """Snapshot of the declarations of a model (raw containers, no cache)."""

    def __init__(self, model):
        self.parameters = model.get_raw_parameters(as_copy=False)
        self.variables = model.get_raw_variables(as_copy=False)
        self.derived = model.get_raw_derived(as_copy=False)
        self.reactions = model.get_raw_reactions(as_copy=False)
        self.surrogates = model.get_raw_surrogates(as_copy=False)
        self.readouts = model.get_raw_readouts(as_copy=False)
        self.data = model._data  # noqa: SLF001  (no public accessor)
        self.out_of = {}
        for sname, s in self.surrogates.items():
            for o in s.outputs:
                self.out_of[o] = sname


def _resolve(decl: Decl, name, env, stack, *, at_init, frozen):
    """Value of `name` by recursion with memo `env`."""
    if name in env:
        return env[name]
    if name in stack:
        raise CycleOrMissing(f"cycle through {name}")
    stack = stack | {name}
    if frozen is not None and name in frozen:
        env[name] = frozen[name]
        return env[name]

    def args_of(el):
        return [_resolve(decl, a, env, stack, at_init=at_init, frozen=frozen) for a in el.args]

    if name in decl.parameters:
        v = decl.parameters[name].value
        if isinstance(v, InitialAssignment):
            if not at_init:
                raise CycleOrMissing(f"assignment {name} must be frozen")
            env[name] = v.fn(*args_of(v))
        else:
            env[name] = v
    elif name in decl.variables:
        v = decl.variables[name].initial_value
        if not at_init:
            raise CycleOrMissing(f"variable {name} missing from state")
        if isinstance(v, InitialAssignment):
            env[name] = v.fn(*args_of(v))
        else:
            env[name] = v
    elif name in decl.derived:
        d = decl.derived[name]
        env[name] = d.fn(*args_of(d))
    elif name in decl.reactions:
        r = decl.reactions[name]
        env[name] = r.fn(*args_of(r))
    elif name in decl.out_of:
        s = decl.surrogates[decl.out_of[name]]
        vals = s.predict({a: v for a, v in zip(s.args, args_of(s), strict=True)})
        for k, v in vals.items():
            env[k] = v
    elif name in decl.data:
        env[name] = decl.data[name]
    else:
        raise CycleOrMissing(f"missing {name}")
    return env[name]


def parameter_like(decl: Decl):
    """Names of derived quantities whose transitive argument closure contains only parameters."""
    memo = {}

    def is_par(name, stack):
        if name in decl.parameters:
            return True
        if name in decl.derived:
            if name in memo:
                return memo[name]
            if name in stack:
                return False
            r = all(is_par(a, stack | {name}) for a in decl.derived[name].args)
            memo[name] = r
            return r
        return False

    return [n for n in decl.derived if is_par(n, frozenset())]


def init_env(model_or_decl):
    """Everything at (declared initial state, t = 0)."""
    decl = model_or_decl if isinstance(model_or_decl, Decl) else Decl(model_or_decl)
    env = {"time": 0.0}
    names = (
        list(decl.parameters)
        + list(decl.variables)
        + list(decl.derived)
        + list(decl.reactions)
        + list(decl.out_of)
    )
    for n in names:
        _resolve(decl, n, env, frozenset(), at_init=True, frozen=None)
    return env


def state_env(model_or_decl, variables: dict, time):
    """Everything at the supplied state: parameter-like quantities keep their t=0 values."""
    decl = model_or_decl if isinstance(model_or_decl, Decl) else Decl(model_or_decl)
    e0 = init_env(decl)
    frozen = {n: e0[n] for n in decl.parameters}
    for n in parameter_like(decl):
        frozen[n] = e0[n]
    env = {"time": time}
    env.update(variables)
    names = list(decl.parameters) + list(decl.derived) + list(decl.reactions) + list(decl.out_of)
    for n in names:
        _resolve(decl, n, env, frozenset(), at_init=False, frozen=frozen)
    return env


def coefficient(factor, env, data=None):
    if isinstance(factor, Derived):
        # a named data set is a legitimate argument of a computed coefficient (it is not part of the value table)
        return factor.fn(*(env[a] if a in env or data is None else data[a] for a in factor.args))
    return factor


def rhs(model_or_decl, variables: dict, time, env=None):
    decl = model_or_decl if isinstance(model_or_decl, Decl) else Decl(model_or_decl)
    if env is None:
        env = state_env(decl, variables, time)
    dx = {v: 0.0 for v in decl.variables}
    for rname, r in decl.reactions.items():
        for cpd, factor in r.stoichiometry.items():
            if cpd in dx:
                dx[cpd] = dx[cpd] + coefficient(factor, env, decl.data) * env[rname]
    for s in decl.surrogates.values():
        for rname, st in s.stoichiometries.items():
            for cpd, factor in st.items():
                if cpd in dx:
                    dx[cpd] = dx[cpd] + coefficient(factor, env, decl.data) * env[rname]
    return dx


def initial_conditions(model_or_decl):
    decl = model_or_decl if isinstance(model_or_decl, Decl) else Decl(model_or_decl)
    e0 = init_env(decl)
    return {v: e0[v] for v in decl.variables}


def flux_names(decl: Decl):
    names = list(decl.reactions)
    for s in decl.surrogates.values():
        names.extend(s.stoichiometries)
    return names
