"""Rate laws / derived functions used by the model families (module-level: source is inspectable)."""
from __future__ import annotations


def constant(x):
    return x


def add(a, b):
    return a + b


def mul(a, b):
    return a * b


def sub(a, b):
    return a - b


def neg(a):
    return -a


def twice(a):
    return 2 * a


def half(a):
    return a / 2


def mass_action_1s(s, k):
    return k * s


def mass_action_2s(s1, s2, k):
    return k * s1 * s2


def mass_action_0s(k):
    return k


def michaelis_menten_1s(s, vmax, km):
    return s * vmax / (s + km)


def reversible(s, p, kf, kr):
    return kf * s - kr * p


def moiety(x, total):
    return total - x


def thresh(s, k):
    if s > k:
        return k * s
    return k


def cond_expr(s, k):
    return k * s if s > 1 else k


def pos_part(x, k):
    return k * max(x, 0.0)


def absdiff(a, b):
    return abs(a - b)


def smaller(a, b):
    return min(a, b)


def ramp(k, time):
    return k * time


def ramp_s(s, k, time):
    return k * s * time


def square(x):
    return x**2


def cube_k(x, k):
    return k * x**3


def power_law(x, k, n):
    return k * x**n


def ratio(a, b):
    return a / b


def affine(a, b, c):
    return a * b + c


def two_outputs(a, b):
    return a * b, a + b


def two_outputs_c(a, b, c):
    return c * a, c * b


def sum3(a, b, c):
    return a + b + c


def chain_cmp(x, a, b):
    if a < x < b:
        return x
    return a


def eq_zero(x, y):
    if x == 0:
        return y
    return x * y


SCALE = 0.125


def scaled(x, SCALE):  # noqa: N803  an argument named like a module-level constant
    return x * SCALE


HILL_N = 2  # an int constant: fn_to_sympy only resolves module-level floats (KeyError)


def hill(x, k):
    return k * x**HILL_N


def uses_loop(x, k):
    r = 0.0
    for _ in range(2):
        r = r + k * x
    return r


import math  # noqa: E402

import numpy as np  # noqa: E402


def exp_law(x, k):
    return k * math.exp(-x)


def log_law(x, k):
    return k * math.log(x)


def sqrt_law(x, k):
    return k * math.sqrt(x)


def pow_law(x, k):
    return k * math.pow(x, 2)


def abs_law(x, k):
    return k * abs(x - 1)


def minmax_law(x, y, k):
    return k * min(x, y) + max(x, 0.5)


def calls_helper(x, k):
    return twice(x) * k


def local_assign_law(x, k):
    a = k * x
    return a + x


def chain_cmp_expr(x, a, b):
    return x if a < x < b else a


def chain_mixed_expr(x, a, b):
    return x - a if a <= x < b else 0.0


def first_of(series):
    return series.iloc[0] * 2


def power_xy(x, y, k):
    return k * x**2 * y


def hill_helper(s, vmax, km=1.0, n=2.0):
    return vmax * s**2 / (km + s**2) * n


def calls_with_partial_defaults(s, vmax, km):
    return hill_helper(s, vmax, km)


def sign_law(s, p, k):
    return k * np.sign(s - p)


def npexp_law(x, k):
    return k * np.exp(-x)


def npsqrt_law(x, k):
    return k * np.sqrt(x)


def floor_law(x, k):
    return k * math.floor(x)


def guard_param(s, dg, k):
    # branches on the sign of a bare model quantity (a parameter)
    if dg < 0:
        return k * s
    return -k * s


def guard_state(s, k):
    # branches on the sign of a bare state variable
    if s < 0:
        return -k * s
    return k * s


def round_law(x, k):
    return k * round(x)


def nprint_law(x, k):
    return k * np.rint(x)


def ceil_law(x, k):
    return k * math.ceil(x)


def nplog10_law(x, k):
    return k * np.log10(x)


def logbase_law(x, k):
    return k * math.log(x, 10)


def remainder_law(x, y, k):
    return k * math.remainder(x, y)
