"""Registry of claimed checks (source of MANIFEST.json)."""
SE = "symbolic execution of the real Python source with z3 (symlift): per-path obligations PC ∧ impl≠oracle decided unsat/sat; counterexamples replayed on floats"
NOTE = ("Trusted base: z3 5.1; the symlift lifting layer (numpy/pandas/float proxies, validated on every path by re-running the unshimmed code at a solver witness); "
        "real arithmetic instead of floats; the explicit family of model shapes / histories stated in evidence.bounds. Outside the bounds nothing is claimed.")
CHECKS = {
    "C01": dict(level="model_checking", technique=SE,
                text="Bounded symbolic execution: for each model shape of an explicit grammar, every feasible path of the six entry points is executed on z3 terms and each component is proved equal to an independent demand-driven evaluator for all parameter values, states and times.",
                note=NOTE),
    "C02": dict(level="model_checking", technique=SE + "; the dependency graph itself is a solver variable (membership bits of Dependency.required are z3 Bools)",
                text="The real _sort_dependencies is executed on symbolic requirement sets: every graph over n<=4/5 components (hence every declaration order) is covered by path exploration; per path z3 proves that a returned order is a valid topological order, that MissingDependenciesError is raised iff a name is missing (and lists exactly those names), and CircularDependencyError iff the graph is complete and cyclic (unrolled transitive closure). API level: all 512 edge sets over 3 components through Model with symbolic values against the evaluator.",
                note=NOTE),
    "C13": dict(level="model_checking", technique=SE,
                text="Bounded symbolic execution of _create_cache / get_initial_conditions / get_args / classification accessors / Simulator.__init__ on assignment chains and on every DAG over 3 derived quantities with all leaf kinds: z3 proves initial values and assignment-defined parameters equal the evaluator at (declared state, t=0), that parameter-like quantities keep that term at an unrelated symbolic state/time, that everything else is recomputed, and the same after parameter / initial-value updates on a populated cache; classification compared with the transitive closure.",
                note=NOTE),
    "C04": dict(level="model_checking", technique=SE + "; ODE solutions are uninterpreted flow functions of (parameters in force, start state, elapsed time)",
                text="The real Simulator and the real Scipy wrapper run on symbolic end times, time points, overrides and parameter values, with only scipy.integrate.solve_ivp/ode replaced by an uninterpreted flow obeying scipy's documented preconditions. For every history of the bounded family and every feasible path z3 proves: a continuation is refused iff its end <= the absolute time reached; the accumulated index equals the specified points, strictly increasing; every row equals Flow(parameters of that segment, previous final state with overrides, elapsed time); one parameter record per segment.",
                note=NOTE + " The flow stub stands for any ODE solver that meets solve_ivp's contract; LSODA's numerical accuracy is outside the claim."),
    "C10": dict(level="model_checking", technique=SE,
                text="Every public view of Simulation (variables, fluxes, args, right-hand side, producers/consumers scaled or not, combined, new_y0, three normalisation shapes, split or concatenated) is executed on results whose states, time labels, per-segment parameters and normalisers are z3 terms; each cell is proved equal to the evaluator at that row's state under that segment's parameters (after the model's parameters were changed again), for every ordered pair/triple of reads.",
                note=NOTE),
    "C14": dict(level="model_checking", technique=SE + "; ODE solutions are uninterpreted flow functions",
                text="make_protocol, simulate_protocol and simulate_protocol_time_course run on symbolic step values, requested time points and (for simulate_protocol) a symbolic earlier end; z3 proves per path that integrator call k covers exactly step k's interval with step k's values as flow parameters, that the index is {start} ∪ requested points inside ∪ boundaries, each once and increasing, and that fluxes inside a step use that step's values.",
                note=NOTE + " Durations are concrete dyadic numbers (pandas Timedelta is C-level)."),
    "C09": dict(level="model_checking", technique=SE + "; pool scheduling order is an explicit selector explored exhaustively, ODE solutions are uninterpreted flows",
                text="scan.* and mc.* run on scan tables whose cells are z3 terms, sequentially and through a pebble stub that executes the tasks on deep copies in every order; per path z3 proves that variables and fluxes of every row equal the flow of a fresh model with exactly that row's values, under the row's own label and in input order; a failing row yields NaN at its own position.",
                note=NOTE + " The pool stub implements pebble's documented map/schedule contract; OS-level process behaviour and pickling are outside."),
    "C15": dict(level="model_checking", technique=SE + "; the ODE stub is the exact closed-form flow of a stable linear system with a symbolic contraction factor, or a drift flow",
                text="Reduced scope (see DESIGN.md C15): the real convergence loop, Simulator.simulate_to_steady_state, get_result and the scan worker run over an ode stub returning y* + (y0-y*)e^n (0<e<=1/2 symbolic) or y0 + c n; z3 proves for all y0, y*, e, tolerance that a reported success lies within the tolerance of y* (absolute norm, 1-D and 2-D) with balancing fluxes, also when ode.integrate hands out the same array object each call, and that a drift of at least the tolerance per step yields NoSteadyState / a NaN row through the real 1000-iteration loop.",
                note=NOTE + " Not claimed: LSODA's accuracy, the relative norm, non-linear networks."),
    "C05": dict(level="model_checking", technique=SE,
                text="LabelMapper.build_model runs on base networks for every atom-transition map of the required length; the labelled model is then executed on symbolic isotopomer concentrations and z3 proves the positional identity (labelled production at product position i = summed rate of the substrate patterns labelled at position map[i], all patterns for external positions), preservation of initial totals, and sum of isotopomer derivatives = base derivative at the totals; counts and coefficient sums are checked per isotopomer reaction; shorter maps must raise ValueError.",
                note=NOTE),
    "C16": dict(level="model_checking", technique=SE,
                text="Both mappers are built from the same base model, label counts and maps at a symbolic metabolic steady state (rate constants defined as flux / substrate pools); z3 proves, for all pool sizes, fluxes and isotopomer distributions, that the rate the linear model assigns to each label position equals the rate of change of that position's enrichment in the isotopomer model, that uniform enrichment equal to the external pool is stationary, and that no label appears without a source.",
                note=NOTE),
}
NOT_APPLICABLE = {}
