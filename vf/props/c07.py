"""C07 — generated Python/TypeScript/Rust/Julia right-hand sides equal the model (DESIGN.md, C07)."""
from __future__ import annotations

import math

from symlift.proxies import MATH
from vf import codefront
from vf import evaluator as E
from vf import models as M
from vf import ratefns as R
from vf.common import Scenario

LEVEL = "translation_validation"
META = {
    "bounds": "surrogate-free model shapes (integer, fractional, named and computed coefficients, conditional and power rate laws, derived chains, time dependence) "
    "x {py, ts, rs} x free_parameters in {None, one, all}; Julia, single-variable Python models, out-of-order derived quantities, variables "
    "without reactions and assignment-defined parameters are probed by one minimal scenario each (open findings); "
    "declared parameter values are concrete dyadic numbers (they are printed as constants), state, time and free parameters symbolic",
    "stubs": ["generated Python is exec'd with `math` bound to the UF-backed proxy; TypeScript / Rust / Julia are parsed by vf/codefront.py "
              "(strict statement grammar + expression parser for the subset sympy's printers emit)"],
    "outside": "acceptance by the real compilers (node/rustc are not run; Julia is not installed); constants are compared as printed",
    "assumptions_list": ["real arithmetic", "denominators non-zero", "the expression subset accepted by vf/codefront.py is the well-formed subset of each language"],
}

VALS = [0.5, 1.5, 2.0, 0.25, 3.0, 0.75, 1.25, 4.0]
LANGS = ("py", "ts", "rs", "jl")


def c07_specs():
    S = []
    S.append(dict(
        name="power_cond",
        params=[("k1", None), ("k2", None)],
        vars=[("x", None), ("y", None)],
        reactions=[
            ("v1", R.thresh, ["x", "k1"], {"x": -1, "y": 1}),
            ("v2", R.cond_expr, ["y", "k2"], {"y": -1}),
            ("v3", R.cube_k, ["x", "k2"], {"x": -0.5}),
            ("v4", R.ratio, ["x", "y"], {"y": 1}),
            ("v5", R.square, ["y"], {"x": 0.25}),
        ],
    ))
    S.append(dict(
        name="three_vars_order",
        params=[("k1", None), ("k2", None)],
        vars=[("s", None), ("i", None), ("r", None)],
        reactions=[
            ("rec", R.mass_action_1s, ["i", "k2"], {"r": 1, "i": -1}),
            ("inf", R.mass_action_2s, ["s", "i", "k1"], {"i": 1, "s": -1}),
        ],
    ))
    S.append(dict(
        name="arg_named_like_module_constant",
        params=[("k1", None), ("k2", None)],
        vars=[("x", None), ("y", None)],
        derived=[("d1", R.scaled, ["x", "k2"])],
        reactions=[("v1", R.scaled, ["d1", "k1"], {"x": -1, "y": 1}), ("v2", R.mass_action_1s, ["y", "k2"], {"y": -1})],
    ))
    S.append(dict(
        name="untranslatable_reaction_keyerror",
        params=[("k1", None), ("k2", None)],
        vars=[("x", None), ("y", None)],
        reactions=[
            ("v1", R.mass_action_1s, ["x", "k1"], {"x": -1, "y": 1}),
            ("v2", R.hill, ["y", "k2"], {"y": -1}),
        ],
    ))
    S.append(dict(
        name="untranslatable_derived",
        params=[("k1", None), ("k2", None)],
        vars=[("x", None), ("y", None)],
        derived=[("d0", R.add, ["x", "y"]), ("d1", R.hill, ["x", "k2"])],
        reactions=[("v1", R.mass_action_2s, ["d0", "d1", "k1"], {"x": -1, "y": 1})],
    ))
    S.append(dict(
        name="untranslatable_loop",
        params=[("k1", None), ("k2", None)],
        vars=[("x", None), ("y", None)],
        reactions=[
            ("v1", R.mass_action_1s, ["x", "k1"], {"x": -1, "y": 1}),
            ("v2", R.uses_loop, ["y", "k2"], {"y": -1}),
        ],
    ))
    return S


MINIMAL = {
    "single_variable": dict(
        name="min_single_variable", params=[("k1", None)], vars=[("x", None)],
        reactions=[("v1", R.mass_action_1s, ["x", "k1"], {"x": -1})]),
    "derived_out_of_order": dict(
        name="min_derived_out_of_order", params=[("k1", None)], vars=[("x", None), ("y", None)],
        derived=[("d2", R.mul, ["d1", "k1"]), ("d1", R.add, ["x", "y"])],
        reactions=[("v1", R.mass_action_1s, ["d2", "k1"], {"x": -1, "y": 1})]),
    "variable_without_reaction": dict(
        name="min_variable_without_reaction", params=[("k1", None)], vars=[("x", None), ("idle", None), ("y", None)],
        reactions=[("v1", R.mass_action_1s, ["x", "k1"], {"x": -1, "y": 1})]),
    "assignment_parameter": dict(
        name="min_assignment_parameter", params=[("k1", None), ("pia", (M.IA, R.twice, ["k1"]))], vars=[("x", None), ("y", None)],
        reactions=[("v1", R.mass_action_1s, ["x", "pia"], {"x": -1, "y": 1})]),
    "derived_names_reaction": dict(
        name="min_derived_names_reaction", params=[("k1", None), ("k2", None)], vars=[("x", None), ("y", None)],
        derived=[("dv", R.mul, ["v1", "k2"])],
        reactions=[("v1", R.mass_action_1s, ["x", "k1"], {"x": -1, "y": 1}), ("v2", R.mass_action_1s, ["dv", "k2"], {"y": -1})]),
}


class Code(Scenario):
    modules = ["mxlpy.model"]
    float_shim = ["mxlpy.model"]

    def __init__(self, spec, lang, free_mode):
        self.spec = spec
        self.lang = lang
        self.free_mode = free_mode
        self.key = f"C07/{spec['name']}/{lang}/free-{free_mode}"

    def run(self, ctx):
        from mxlpy.meta import codegen_model as cg
        from mxlpy.meta.source_tools import fn_to_sympy

        names_p = [n for n, ia in self.spec.get("params", []) if ia is None]
        names_v = [n for n, ia in self.spec.get("vars", []) if ia is None]
        vals = {n: VALS[i % len(VALS)] for i, n in enumerate(names_p + names_v)}
        m = M.build(self.spec, ctx, vals=vals)
        free = None if self.free_mode == "none" else (names_p[:1] if self.free_mode == "one" else list(names_p))
        gen = getattr(cg, f"generate_model_code_{self.lang}")
        translatable = True
        decl = E.Decl(m)
        for el in list(decl.derived.values()) + list(decl.reactions.values()):
            try:
                if fn_to_sympy(el.fn, origin="probe") is None:
                    translatable = False
            except Exception:  # noqa: BLE001
                translatable = False
        try:
            src = gen(m, free_parameters=free)
        except Exception as e:  # noqa: BLE001
            ctx.true("generation succeeds for a model whose functions translate" if translatable else "generation refused (raised)",
                     not translatable, info=f"{type(e).__name__}: {e}"[:200])
            return
        ctx.true("a function that cannot be translated makes generation raise", translatable)
        names = list(decl.variables)
        state = {v: ctx.real(f"s_{v}") for v in names}
        T = ctx.real("T")
        free_vals = {}
        for p in free or []:
            free_vals[p] = ctx.real(f"f_{p}")
            m.update_parameter(p, free_vals[p])
        dx = E.rhs(m, state, T)
        try:
            if self.lang == "py":
                ns = {"math": MATH if ctx.symbolic else math}
                exec(compile(src.replace("import math\n", ""), "<generated>", "exec"), ns)  # noqa: S102
                out = ns["model"](T, [state[v] for v in names], *[free_vals[p] for p in free or []])
                out = list(out) if isinstance(out, tuple | list) else [out]
            else:
                out = codefront.run_model(src, self.lang, len(names), T, [state[v] for v in names], free_vals)
        except codefront.NotWellFormed as e:
            ctx.true(f"well-formed {self.lang} ({e})"[:150], False, info=src[:300])
            return
        except ZeroDivisionError:
            return
        except Exception as e:  # noqa: BLE001
            ctx.true(f"the generated {self.lang} function runs ({type(e).__name__}: {e})"[:150], False, info=src[:300])
            return
        ctx.true("returns one derivative per variable", len(out) == len(names), info=f"{len(out)} vs {len(names)}")
        if len(out) != len(names):
            return
        for v, o in zip(names, out):
            ctx.eq(f"returned derivative of {v} (position = declaration order)", o, dx[v])


def scenarios(tier, seed):
    scs = []
    skip = {"ma1", "time_dep", "derived_rev_order", "untouched", "ia_param_var", "ia_chain", "mm_moiety", "derived_names_reaction"}
    base = [s for s in M.no_surrogates(M.base_shapes()) if s["name"] not in skip] + c07_specs()
    for s in base:
        orders = [s]
        if tier != "quick":
            orders = M.all_orders(s, kinds=("reactions", "vars"))
        elif len(s.get("reactions", [])) >= 2:
            orders = [s, M.permuted(s, "reactions", -1), M.permuted(s, "vars", -1)]
        for o in orders:
            for lang in ("py", "ts", "rs"):
                for fm in ("none", "one", "all"):
                    if tier == "quick" and fm == "all" and o is not s:
                        continue
                    scs.append(Code(o, lang, fm))
    if tier != "quick":
        for g in M.grammar_shapes(with_surrogates=False):
            if "/u" in g["name"]:
                continue  # variables without reactions: open finding, probed by its minimal scenario
            if "/rev" in g["name"] and len(g.get("derived", [])) >= 2:
                continue  # derived quantities declared out of dependency order: open finding
            for lang in ("py", "ts", "rs"):
                scs.append(Code(g, lang, "none"))
    for name, spec in MINIMAL.items():
        for lang in (("py",) if name == "single_variable" else ("py", "ts", "rs")):
            scs.append(Code(spec, lang, "none"))
    scs.append(Code(base[0], "jl", "none"))
    return scs
