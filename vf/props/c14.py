"""C14 — protocols: each step's parameter values hold exactly over its interval (DESIGN.md, C14)."""
from __future__ import annotations

import itertools as it
from fractions import Fraction

from vf import evaluator as E
from vf.common import Scenario
from vf.flow import FlowModel, StubSPI
from vf.props.c04 import MODS, compare_result, ghost_pvals

LEVEL = "model_checking"
META = {
    "bounds": "protocols of 1-3 steps with concrete dyadic durations from {0.25, 0.5, 1, 2} and a few spanning more than a day (pandas Timedelta is C-level), 1-2 parameters per step "
    "with symbolic values, key order of later steps permuted; simulate_protocol with 1|2 points per step on a fresh simulator or continuing a "
    "simulation with a symbolic end; simulate_protocol_time_course with 1-2 (quick) / 3 (thorough) symbolic requested points, absolute or relative, "
    "fresh or continuing a simulation with a concrete end",
    "stubs": ["scipy.integrate.solve_ivp -> uninterpreted flow with scipy's preconditions; closed form in replays",
              "pd/np/float module globals of mxlpy, mxlpy.model, mxlpy.simulator, mxlpy.simulation, mxlpy.integrators.int_scipy rebound to proxies"],
    "outside": "symbolic or non-dyadic durations",
    "assumptions_list": ["requested time points strictly increasing", "real arithmetic"],
}


def fluxes_of(kind, p, y):
    if kind == "decay":
        return {"v": p["k"] * y[0]}
    if kind == "chain":
        return {"v1": p["k1"] * y[0], "v2": p["k2"] * y[1]}
    raise ValueError(kind)


class Proto(Scenario):
    modules = [*MODS, "mxlpy"]
    float_shim = ["mxlpy.model", "mxlpy.simulator"]
    max_paths = 6000
    # flows are closed forms in replays (exact to rounding), so much smaller discrepancies than the default 1e-3 are meaningful
    margin = Fraction(1, 10**9)
    concrete_tol = 1e-9

    def __init__(self, kind, durations, mode, npts=0, relative=False, continued=False, swap=False, per_step=1, edit_before=False,
                 edit_after=False, grid_array=False, ragged=False, t_prev=0.5):
        self.ragged = ragged  # later steps name only the first parameter: the others keep the value they have
        self.t_prev = t_prev  # concrete end of the earlier simulation (time-course form), e.g. a non-dyadic 1/3
        self.edit_after = edit_after  # the model's parameters are changed by hand after the protocol ran and before its fluxes are first read
        self.grid_array = grid_array  # the requested grid is passed as an ndarray, which must come back as it was passed
        self.edit_before = edit_before  # a manual parameter change between the earlier simulation and the protocol
        self.kind = kind
        self.durations = tuple(durations)
        self.mode = mode  # "P" simulate_protocol | "TC" simulate_protocol_time_course
        self.npts = npts
        self.relative = relative
        self.continued = continued
        self.swap = swap
        self.per_step = per_step
        d = "_".join(str(x) for x in durations)
        self.key = (f"C14/{kind}/{mode}/d{d}/n{npts}{'r' if relative else 'a'}/"
                    f"{'cont' if continued else 'fresh'}{'/swap' if swap else ''}{f'/s{per_step}' if mode == 'P' else ''}{'/edit' if edit_before else ''}"
                    f"{'/edit-after' if edit_after else ''}{'/grid-array' if grid_array else ''}{'/ragged' if ragged else ''}"
                    f"{'' if t_prev == 0.5 else '/after-' + str(round(t_prev, 4))}")

    def run(self, ctx):
        import mxlpy.integrators.int_scipy as isc

        fm = FlowModel(self.kind)
        saved = isc.spi
        isc.spi = StubSPI(fm, ctx.symbolic)
        try:
            self._run(ctx, fm)
        finally:
            isc.spi = saved

    @staticmethod
    def _step_values(vals, segp, m0_p):
        """Parameter values in force during a step: the previous ones, updated with what the step names."""
        prev = dict(segp[-1]) if segp and len(segp[-1]) == len(m0_p) else dict(m0_p)
        prev.update(vals)
        return {k: prev[k] for k in sorted(prev)}

    def _run(self, ctx, fm):
        from mxlpy import Simulator, make_protocol

        sym = ctx.symbolic
        m = fm.build(ctx)
        names = m.get_variable_names()
        pnames = m.get_parameter_names()
        with ctx.impl("Simulator()"):
            sim = Simulator(m)
        ic = E.initial_conditions(m)
        y_cur = [ic[v] for v in names]
        reached = 0.0
        started = False
        rows, segp, seg_of_row = [], [], []
        if self.continued:
            t_prev = ctx.real("t_prev") if self.mode == "P" else self.t_prev
            if self.mode == "P":
                ctx.assume(t_prev > 0)
            with ctx.impl("earlier simulate"):
                sim.simulate(t_prev, steps=1)
            p = ghost_pvals(m)
            rows += [(0.0, list(y_cur)), (t_prev, fm.flow(p, y_cur, 0.0, t_prev, sym))]
            seg_of_row += [p, p]
            y_cur = rows[-1][1]
            reached = t_prev
            started = True
            segp.append(p)
            if self.edit_before:
                with ctx.impl("update_parameter before the protocol"):
                    for pn_ in pnames:
                        sim.update_parameter(pn_, ctx.real(f"edit_{pn_}"))
        # the protocol
        m0_p = ghost_pvals(m)  # what the model holds when the protocol starts
        steps = []
        for i, d in enumerate(self.durations):
            keys = list(pnames)
            if self.swap and i % 2 == 1:
                keys = keys[::-1]
            if self.ragged and i > 0:
                keys = keys[:1]
            steps.append((d, {k: ctx.real(f"st{i}_{k}") for k in keys}))
        if any(d <= 0 for d, _ in steps):
            # a step without duration governs no interval: refused, or without any effect on the steps around it
            try:
                protocol = make_protocol(steps)
            except ValueError as e:
                ctx.note(f"refused: {e}")
                ctx.true("a protocol with a step of no duration is refused (ValueError)", True)
                return
            steps = [(d, v) for d, v in steps if d > 0]
        else:
            with ctx.impl("make_protocol"):
                protocol = make_protocol(steps)
        t_start = reached
        bounds = []
        cum = 0
        for d, _ in steps:
            cum = cum + d
            bounds.append(t_start + cum)  # start + cumulative duration (in floats the order of the additions matters for a non-dyadic start)
        t_end = bounds[-1]
        if self.mode == "P":
            with ctx.impl("simulate_protocol"):
                sim.simulate_protocol(protocol, time_points_per_step=self.per_step)
            lo = t_start
            for (d, vals), hi in zip(steps, bounds):
                p = self._step_values(vals, segp, m0_p)
                n = self.per_step
                pts = [lo + (hi - lo) * j / n for j in range(n)] + [hi]
                new = [(q, fm.flow(p, y_cur, lo, q, sym)) for q in pts]
                add = new if not started else new[1:]
                rows += add
                seg_of_row += [p] * len(add)
                started = True
                y_cur = new[-1][1]
                lo = hi
                segp.append(p)
        else:
            req = [ctx.real(f"q{j}") for j in range(self.npts)]
            for a, b in zip(req, req[1:]):
                ctx.assume(a < b)
            import numpy as _np

            grid = _np.array(list(req), dtype=object if sym else float) if self.grid_array else list(req)
            try:
                sim.simulate_protocol_time_course(protocol, grid, time_points_as_relative=self.relative)
                raised = False
            except ValueError as e:
                raised = True
                ctx.note(str(e))
            except Exception as e:  # noqa: BLE001
                ctx.fail(f"simulate_protocol_time_course: raised {type(e).__name__}", info=str(e)[:200])
            absreq = [q + t_start for q in req] if self.relative else list(req)
            if self.grid_array:
                for j, q in enumerate(req):
                    ctx.eq(f"the caller's grid still holds requested point {j} (a reused grid is the same request)", grid[j], q)
            ctx.true("refused exactly when the last requested point <= start", (absreq[-1] <= t_start) if raised else (absreq[-1] > t_start))
            if raised:
                compare_result(ctx, sim, started, rows, segp, names)
                return
            lo = t_start
            for (d, vals), hi in zip(steps, bounds):
                p = self._step_values(vals, segp, m0_p)
                inside = [q for q in absreq if bool(q > lo) and bool(q < hi)]
                pts = inside + [hi]
                new = [(q, fm.flow(p, y_cur, lo, q, sym)) for q in pts]
                if not started:
                    rows += [(lo, list(y_cur))]
                    seg_of_row += [p]
                rows += new
                seg_of_row += [p] * len(new)
                started = True
                y_cur = new[-1][1]
                lo = hi
                segp.append(p)
        compare_result(ctx, sim, started, rows, segp, names)
        if self.edit_after:
            with ctx.impl("update_parameter on the model after the protocol"):
                for pn_ in pnames:
                    m.update_parameter(pn_, ctx.real(f"late_{pn_}"))
        # fluxes reported inside a step use that step's values
        if sim.variables is not None and sum(len(f) for f in sim.variables) == len(rows):
            with ctx.impl("fluxes"):
                fl = sim.get_result().unwrap_or_err().fluxes
            if len(fl) == len(rows):
                for j, ((t, y), p) in enumerate(zip(rows, seg_of_row)):
                    for fn_, val in fluxes_of(self.kind, p, y).items():
                        ctx.eq(f"flux[{j},{fn_}] uses the values of its step", fl[fn_].iloc[j], val)
        if self.edit_after:
            return
        # the model is left with the last step's values
        last = dict(segp[-1]) if self.ragged else {k: steps[-1][1][k] for k in steps[-1][1]}
        with ctx.impl("parameters after protocol"):
            pv = m.get_parameter_values()
        for k, v in last.items():
            ctx.eq(f"model parameter {k} after the protocol = last step's value", pv[k], v)


def scenarios(tier, seed):
    scs = []
    durs = [0.25, 0.5, 1, 2]
    if tier == "quick":
        layouts = [(1,), (0.5, 1), (1, 0.25), (2, 0.5, 1), (0.25, 0.25, 0.5), (1, 2), (90000, 0.5)]  # the last one is longer than a day
    else:
        layouts = [(d,) for d in durs] + list(it.product(durs, repeat=2)) + [l for l in it.product(durs, repeat=3) if sum(l) <= 4]
        layouts += [(90000, 0.5), (43200, 43200, 43200), (0.5, 172800)]
    for lay in layouts:
        for cont in (False, True):
            for ps in (1, 2):
                scs.append(Proto("decay", lay, "P", continued=cont, per_step=ps))
            scs.append(Proto("chain", lay, "P", continued=cont, swap=True, per_step=1))
            npts_list = (1, 2) if tier == "quick" else (1, 2, 3)
            for npts in npts_list:
                if npts == 3 and len(lay) > 2:
                    continue
                for rel in (False, True):
                    scs.append(Proto("decay", lay, "TC", npts=npts, relative=rel, continued=cont))
            scs.append(Proto("chain", lay, "TC", npts=1, relative=cont, continued=cont, swap=True))
        if len(lay) == 2:
            scs.append(Proto("decay", (lay[0], 0, lay[1]), "P"))
            scs.append(Proto("chain", lay, "P", ragged=True))
            scs.append(Proto("chain", lay, "TC", npts=1, relative=True, continued=True, ragged=True))
            scs.append(Proto("decay", lay, "TC", npts=2, relative=True, continued=True, t_prev=1 / 3))
        if len(lay) <= 2:
            scs.append(Proto("decay", lay, "P", continued=False, per_step=1, edit_after=True))
            scs.append(Proto("decay", lay, "TC", npts=1, relative=True, continued=True, edit_after=True, grid_array=True))
            scs.append(Proto("decay", lay, "TC", npts=2, relative=True, continued=True, grid_array=True))
            scs.append(Proto("decay", lay, "P", continued=True, per_step=1, edit_before=True))
            scs.append(Proto("decay", lay, "TC", npts=1, relative=False, continued=True, edit_before=True))
    return scs
