"""C04 — continued simulation: absolute increasing time axis, piecewise-exact states (DESIGN.md, C04)."""
from __future__ import annotations

import itertools as it

from vf import evaluator as E
from vf.common import Scenario
from vf.flow import FlowModel, StubSPI

LEVEL = "model_checking"
META = {
    "bounds": "operation histories of length <=3 (quick) / <=4 (thorough) over {simulate(steps 1|2), simulate_time_course(2|3 points), "
    "update_parameter, update_variable, clear_results}; steady-state runs only in minimal histories (<=3 ops); models: 1-variable decay, "
    "2-variable chain, one time-dependent rate; every end time, time point, override and parameter value symbolic",
    "stubs": ["scipy.integrate.solve_ivp / ode -> uninterpreted flow Flow(parameters in force, y0, t - t0) with scipy's documented preconditions "
              "(t_eval strictly increasing and inside t_span); closed-form exact solution in concrete replays",
              "pd/np/float module globals of mxlpy.model, mxlpy.simulator, mxlpy.integrators.int_scipy rebound to proxies"],
    "outside": "numerical accuracy of LSODA, other integrators, histories longer than the bound, more than 3 requested points per call",
    "assumptions_list": ["requested time points of one call are strictly increasing (scipy rejects otherwise)", "real arithmetic"],
}

MODS = ["mxlpy.model", "mxlpy.simulator", "mxlpy.integrators.int_scipy", "mxlpy.simulation", "mxlpy"]


def ghost_pvals(m):
    decl = E.Decl(m)
    e0 = E.init_env(decl)
    names = list(decl.parameters) + E.parameter_like(decl)
    return {n: e0[n] for n in sorted(names)}


class Hist(Scenario):
    modules = MODS
    float_shim = ["mxlpy.model", "mxlpy.simulator"]
    max_paths = 3000

    def __init__(self, kind, ops):
        self.kind = kind
        self.ops = tuple(ops)
        self.key = f"C04/{kind}/{'-'.join(ops)}"

    def run(self, ctx):
        import mxlpy.integrators.int_scipy as isc
        from mxlpy import Simulator

        fm = FlowModel(self.kind)
        saved = isc.spi
        spi = StubSPI(fm, ctx.symbolic)
        isc.spi = spi
        try:
            self._run(ctx, fm, spi, Simulator)
        finally:
            isc.spi = saved

    def _run(self, ctx, fm, spi, Simulator):
        sym = ctx.symbolic
        m = fm.build(ctx)
        names = m.get_variable_names()
        pname = m.get_parameter_names()[0]
        with ctx.impl("Simulator()"):
            sim = Simulator(m)
        ic = E.initial_conditions(m)
        y_cur = [ic[v] for v in names]
        reached = 0.0
        started = False
        rows = []
        segp = []
        ss_seen = False
        for i, op in enumerate(self.ops):
            p = ghost_pvals(m)
            if op in ("S1", "S2", "S3", "SN"):
                steps = None if op == "SN" else int(op[1])
                t = ctx.real(f"t{i}")
                try:
                    sim.simulate(t, steps=steps)
                    raised = False
                except ValueError as e:
                    raised = True
                    ctx.note(str(e))
                except Exception as e:  # noqa: BLE001
                    ctx.fail(f"op{i} {op}: raised {type(e).__name__}", info=str(e)[:200])
                ctx.true(f"op{i} {op}: refused exactly when end <= time reached", (t <= reached) if raised else (t > reached))
                if raised:
                    continue
                if steps is None:
                    steps = 99  # the documented default: 100 points including the start
                pts = [reached + (t - reached) * j / steps for j in range(steps)] + [t]
                new = [(q, fm.flow(p, y_cur, reached, q, sym)) for q in pts]
                rows += new if not started else new[1:]
                started = True
                y_cur = new[-1][1]
                reached = t
                segp.append(p)
            elif op in ("TC1", "TC2", "TC3"):
                n = int(op[2])
                pts = [ctx.real(f"a{i}_{j}") for j in range(n)]
                for a, b in zip(pts, pts[1:]):
                    ctx.assume(a < b)
                try:
                    sim.simulate_time_course(list(pts))
                    raised = False
                except ValueError as e:
                    raised = True
                    ctx.note(str(e))
                except Exception as e:  # noqa: BLE001
                    ctx.fail(f"op{i} {op}: raised {type(e).__name__}", info=str(e)[:200])
                ctx.true(f"op{i} {op}: refused exactly when last point <= time reached", (pts[-1] <= reached) if raised else (pts[-1] > reached))
                if raised:
                    continue
                kept = [q for q in pts if bool(q > reached)]
                if not kept:
                    return  # the refusal obligation above has already failed
                new = [(q, fm.flow(p, y_cur, reached, q, sym)) for q in kept]
                if not started:
                    rows += [(reached, list(y_cur))]
                rows += new
                started = True
                y_cur = new[-1][1]
                reached = kept[-1]
                segp.append(p)
            elif op == "PR":
                # a one-step protocol of duration 1/2 that sets the parameter (continues from the time reached)
                from mxlpy import make_protocol

                val = ctx.real(f"pr{i}")
                with ctx.impl(f"op{i} simulate_protocol"):
                    sim.simulate_protocol(make_protocol([(0.5, {pname: val})]), time_points_per_step=1)
                p = ghost_pvals(m)
                ctx.eq(f"op{i} PR: the step's value is in force", p[pname], val)
                t = reached + 0.5
                new = [(reached, list(y_cur)), (t, fm.flow(p, y_cur, reached, t, sym))]
                rows += new if not started else new[1:]
                started = True
                y_cur = new[-1][1]
                reached = t
                segp.append(p)
            elif op == "UP":
                with ctx.impl(f"op{i} update_parameter"):
                    sim.update_parameter(pname, ctx.real(f"pv{i}"))
            elif op == "UV":
                v = ctx.real(f"yv{i}")
                with ctx.impl(f"op{i} update_variable"):
                    sim.update_variable(names[0], v)
                y_cur = [v] + list(y_cur[1:])
            elif op == "UW":
                # an override of the last variable (a second, different variable in two-variable models)
                v = ctx.real(f"yw{i}")
                with ctx.impl(f"op{i} update_variable (last variable)"):
                    sim.update_variable(names[-1], v)
                y_cur = list(y_cur[:-1]) + [v]
            elif op == "RD":
                # the result so far is read (fluxes and derivatives) - reading must not disturb what comes next
                if started:
                    with ctx.impl(f"op{i} read fluxes and derivatives of the result so far"):
                        r_ = sim.get_result().unwrap_or_err()
                        _ = r_.fluxes
                        _ = r_.get_right_hand_side()
                    after = ghost_pvals(m)
                    for n_ in p:
                        ctx.eq(f"op{i} RD: reading leaves parameter {n_} in force", after[n_], p[n_])
            elif op == "CL":
                with ctx.impl(f"op{i} clear_results"):
                    sim.clear_results()
                started = False
                rows = []
                segp = []
                reached = 0.0
                y_cur = [sim.y0[v] for v in names]
            elif op == "SS":
                with ctx.impl(f"op{i} simulate_to_steady_state"):
                    sim.simulate_to_steady_state()
                if sim.variables is None or len(sim._errors) > 0:  # noqa: SLF001
                    ctx.note("steady state not reached")
                    continue
                fr = sim.variables[-1]
                t_ss = fr.index[-1]
                y_ss = [fr[v].iloc[-1] for v in names]
                if started:
                    ctx.true(f"op{i} SS: time axis strictly increasing across the steady-state row", t_ss > reached)
                rows.append((t_ss, y_ss))
                ss_seen = True
                started = True
                reached = t_ss
                y_cur = y_ss
                segp.append(p)
            else:
                raise ValueError(op)
        compare_result(ctx, sim, started, rows, segp, names, ss_seen, kind=self.kind)


FLUXES = {
    "decay": lambda p, y: {"v": p["k"] * y[0]},
    "ia_decay": lambda p, y: {"v": p["kia"] * y[0]},
    "chain": lambda p, y: {"v1": p["k1"] * y[0], "v2": p["k2"] * y[1]},
}


def compare_result(ctx, sim, started, rows, segp, names, ss_seen=False, kind=None):
    if True:
        # ---- final comparison of the accumulated result
        frames = sim.variables
        if not started:
            ctx.true("no results before the first successful simulation", frames is None)
            return
        if frames is None:
            ctx.fail("results missing")
        idx = [t for f in frames for t in f.index]
        ctx.true("number of rows = start + requested points later than the time reached, each once", len(idx) == len(rows),
                 info=f"{len(idx)} vs {len(rows)}")
        if len(idx) != len(rows):
            return
        for j, (t, y) in enumerate(rows):
            ctx.eq(f"time[{j}]", idx[j], t)
        for a in range(len(idx) - 1):
            ctx.true(f"time axis strictly increasing [{a}]", idx[a] < idx[a + 1])
        vals = [[f[v].iloc[r] for v in names] for f in frames for r in range(len(f))]
        # after a steady-state run the next segment continues from the state the search reached (the row it reported):
        # the states of later rows are compared like any others
        for j, (t, y) in enumerate(rows):
            for c, v in enumerate(names):
                ctx.eq(f"state[{j},{v}]", vals[j][c], y[c])
        sp = sim.simulation_parameters
        ctx.true("one parameter record per segment", sp is not None and len(sp) == len(segp) == len(frames))
        if sp is not None and len(sp) == len(segp):
            for k, (rec, p) in enumerate(zip(sp, segp)):
                for n in rec:
                    ctx.eq(f"segment {k} parameters[{n}]", rec[n], p[n])
        with ctx.impl("get_result"):
            res = sim.get_result().unwrap_or_err()
        ctx.true("get_result carries the same frames", len(res.raw_variables) == len(frames))
        # the fluxes reported for a row are those of its own segment's parameter values (whatever the model holds now)
        if kind in FLUXES and len(segp) == len(frames):
            with ctx.impl("fluxes of the result"):
                fl = res.fluxes
            if len(fl) == len(rows):
                j = 0
                for k, f in enumerate(frames):
                    for _ in range(len(f)):
                        for fn_, val in FLUXES[kind](segp[k], rows[j][1]).items():
                            ctx.eq(f"flux[{j},{fn_}] under the parameter values of segment {k}", fl[fn_].iloc[j], val)
                        j += 1


SIM_OPS = ["S1", "S2", "TC2"]
OTHER = ["UP", "UV", "CL"]


def histories(tier):
    alphabet = SIM_OPS + OTHER + (["TC3", "TC1"] if tier != "quick" else [])
    L = 3 if tier == "quick" else 4
    out = []
    for n in range(1, L + 1):
        for h in it.product(alphabet, repeat=n):
            if not any(o in h for o in ("S1", "S2", "S3", "SN", "TC1", "TC2", "TC3", "PR")):
                continue
            if h[-1] in ("UP", "UV") :
                continue  # trailing edits are unobservable
            out.append(h)
    return out


def scenarios(tier, seed):
    scs = []
    hs = histories(tier)
    for h in hs:
        scs.append(Hist("decay", h))
    # second model kinds on a thinner set
    for h in hs:
        if len(h) <= (2 if tier == "quick" else 3):
            scs.append(Hist("chain", h))
        if "UV" not in h and len(h) <= (3 if tier == "quick" else 3):
            scs.append(Hist("timedep", h))
    # deeper histories with a regular shape: up to three simulations, each optionally preceded by an edit
    pre = [(), ("UV",), ("UP",)] + ([("UV", "UP"), ("CL",)] if tier != "quick" else [])
    sims = ["S1", "TC2"] + (["S2"] if tier != "quick" else [])
    have = {s_.key for s_ in scs}
    for combo in it.product(it.product(pre, sims), repeat=3):
        h = tuple(o for pr, sm in combo for o in (*pr, sm))
        sc_ = Hist("decay", h)
        if sc_.key not in have:
            have.add(sc_.key)
            scs.append(sc_)
    for h in (("PR",), ("PR", "S1"), ("S1", "UP", "PR"), ("S1", "UP", "PR", "S1"), ("TC2", "UP", "PR", "TC2"), ("S1", "PR", "UV", "S1"), ("S1", "UP", "UV", "PR")):
        scs.append(Hist("decay", h))
    # two overrides of different variables in a row: both apply
    for h in (("S1", "UV", "UW", "S1"), ("S1", "UW", "UV", "TC2"), ("UV", "UW", "S1"), ("TC2", "UV", "UP", "UW", "S1")):
        scs.append(Hist("chain", h))
    # the result is read between an edit and the next run
    for h in (("S1", "UP", "RD", "S1"), ("TC2", "UP", "RD", "TC2"), ("S1", "RD", "UP", "S1"), ("S1", "UV", "RD", "S1"), ("S1", "UP", "S1", "UP", "RD", "S1")):
        scs.append(Hist("decay", h))
    # a parameter defined by an initial assignment is given a plain value between two runs: the first segment keeps its own
    for h in (("S1", "UP", "S1"), ("TC2", "UP", "TC2"), ("S1", "UP", "RD", "S1")):
        scs.append(Hist("ia_decay", h))
    # minimal histories for constructs with open findings (kept out of the composites above)
    for h in (("SS",), ("S1", "SS"), ("SS", "S1"), ("UV", "SS"), ("S1", "SS", "S1"), ("S1", "UV", "SS"), ("SS", "TC2")):
        scs.append(Hist("decay", h))
    # steady-state searches inside longer histories (the search continues from the state reached, later runs continue from its result)
    for h in (("S1", "SS", "UP", "S1"), ("SS", "UV", "S1"), ("TC2", "SS", "TC2"), ("S1", "UV", "SS", "S1"), ("S1", "UP", "SS", "RD", "S1")):
        scs.append(Hist("decay", h))
    scs.append(Hist("chain", ("S1", "SS", "S1")))
    for h in (("S1", "UV", "S1"), ("S1", "UV", "TC2"), ("UV", "S1")):
        scs.append(Hist("timedep", h))
    if tier != "quick":
        scs.append(Hist("decay", ("S3", "UV", "S3")))
        for h in (("SN",), ("S1", "SN"), ("SN", "UV", "S1"), ("TC2", "UP", "SN")):
            scs.append(Hist("decay", h))
    else:
        scs.append(Hist("decay", ("S1", "SN")))
    return scs
