"""C05 — isotopomer expansion preserves base structure, totals and dynamics (DESIGN.md, C05)."""
from __future__ import annotations

import itertools as it

from vf import evaluator as E
from vf import ratefns as R
from vf.common import Scenario

LEVEL = "model_checking"
META = {
    "bounds": "base networks {A->B, A+B->C, C->A+B, ->A, A->, A+X->B (X unlabelled), 2A->B (minimal)} with a derived quantity and an unlabelled bystander; "
    "label counts <=2 per compound (<=3 in thorough), <=4 substrate positions; every map of the required length over substrate+external positions "
    "(permutations, merges, splits, external positions); all isotopomer concentrations, parameters and base initial values symbolic",
    "stubs": ["pd/np/float module globals of mxlpy.model and mxlpy.label_map rebound to proxies"],
    "outside": "non-mass-action rate laws for the dynamics clause (as the property states); more than 4 label positions per reaction",
    "assumptions_list": ["real arithmetic", "isotopomer bit membership is read through the public get_isotopomers_of_at_position"],
}


def ma0(k):
    return k


def ma1(s, k):
    return k * s


def ma2(s1, s2, k):
    return k * s1 * s2


def ma_dimer(s, k):
    return k * s * s


def ma_rev(s, p, kf, kr):
    return kf * s - kr * p


def ma_inhib(s, p, k):
    return k * s - k * s * p


NETWORKS = {
    # name: (variables with labels, reaction (stoich, args, fn), extra)
    "uni": dict(vars={"A": 2, "B": 2}, rxn=({"A": -1, "B": 1}, ["A", "k"], ma1)),
    "uni12": dict(vars={"A": 1, "B": 2}, rxn=({"A": -1, "B": 1}, ["A", "k"], ma1)),
    "merge": dict(vars={"A": 1, "B": 1, "C": 2}, rxn=({"A": -1, "B": -1, "C": 1}, ["A", "B", "k"], ma2)),
    "split": dict(vars={"C": 2, "A": 1, "B": 1}, rxn=({"C": -1, "A": 1, "B": 1}, ["C", "k"], ma1)),
    "influx": dict(vars={"A": 2}, rxn=({"A": 1}, ["k"], ma0)),
    "efflux": dict(vars={"A": 2}, rxn=({"A": -1}, ["A", "k"], ma1)),
    "cofactor": dict(vars={"A": 2, "X": 0, "B": 2}, rxn=({"A": -1, "X": -1, "B": 1}, ["A", "X", "k"], ma2)),
    "dimer": dict(vars={"A": 1, "B": 2}, rxn=({"A": -2, "B": 1}, ["A", "k"], ma_dimer)),
    "reversible": dict(vars={"A": 2, "B": 2}, rxn=({"A": -1, "B": 1}, ["A", "B", "k", "kz"], ma_rev)),
    "uni3": dict(vars={"A": 3, "B": 3}, rxn=({"A": -1, "B": 1}, ["A", "k"], ma1)),
    "merge21": dict(vars={"Q": 2, "P": 1, "R": 3}, rxn=({"Q": -1, "P": -1, "R": 1}, ["Q", "P", "k"], ma2)),
    "split21": dict(vars={"R": 3, "T": 2, "S": 1}, rxn=({"R": -1, "T": 1, "S": 1}, ["R", "k"], ma1)),
    "influx3": dict(vars={"A": 3}, rxn=({"A": 1}, ["k"], ma0)),
    "gain": dict(vars={"A": 1, "B": 2}, rxn=({"A": -1, "B": 1}, ["A", "k"], ma1)),
}


class Iso(Scenario):
    modules = ["mxlpy.model", "mxlpy.label_map"]
    float_shim = ["mxlpy.model"]

    def __init__(self, net, lmap, init_label=None, relabel=False):
        self.relabel = relabel  # the mapper was queried / built with other label counts first, which are then re-declared in place
        self.net = net
        self.lmap = tuple(lmap)
        self.init_label = init_label
        self.key = f"C05/{net}/map{''.join(map(str, lmap)) or '-'}{'' if init_label is None else '/init' + str(init_label)}{'/relabelled' if relabel else ''}"

    def base(self, ctx):
        from mxlpy import Model

        spec = NETWORKS[self.net]
        m = Model()
        m.add_parameter("k", ctx.real("p_k"))
        m.add_parameter("kz", ctx.real("p_kz"))
        for v in spec["vars"]:
            m.add_variable(v, ctx.real(f"i_{v}"))
        m.add_variable("Z", ctx.real("i_Z"))  # unlabelled bystander
        first = next(iter(spec["vars"]))
        m.add_derived("dsum", R.add, args=[first, "Z"])
        m.add_derived("dpar", R.twice, args=["kz"])
        st, args, fn = spec["rxn"]
        m.add_reaction("v", fn, args=args, stoichiometry=st)
        m.add_reaction("vz", ma2, args=["Z", "dsum", "dpar"], stoichiometry={"Z": -1})
        return m

    def run(self, ctx):
        from mxlpy import LabelMapper

        spec = NETWORKS[self.net]
        base = self.base(ctx)
        labels = {v: n for v, n in spec["vars"].items() if n > 0}
        st = spec["rxn"][0]
        subs = [c for c, n in st.items() if n < 0 for _ in range(-n)]
        prods = [c for c, n in st.items() if n > 0 for _ in range(n)]
        tsl = sum(labels.get(c, 0) for c in subs)
        tpl = sum(labels.get(c, 0) for c in prods)
        if self.relabel:
            coarse = {c: n + 1 for c, n in labels.items()}
            mapper = LabelMapper(base, label_variables=coarse, label_maps={"v": list(self.lmap)})
            try:
                mapper.get_isotopomers()
                for c in coarse:
                    mapper.get_isotopomer_of(c)
                mapper.build_model()
            except Exception:  # noqa: BLE001,S110  the map need not fit the first counts
                pass
            for c, n in labels.items():
                mapper.label_variables[c] = n
        else:
            mapper = LabelMapper(base, label_variables=dict(labels), label_maps={"v": list(self.lmap)})
        init = None if self.init_label is None else {next(iter(labels)): self.init_label}
        if len(self.lmap) < tsl:
            try:
                mapper.build_model(initial_labels=init)
            except ValueError:
                ctx.true("a map shorter than the substrates' atoms is rejected", True)
                return
            except Exception as e:  # noqa: BLE001
                ctx.true(f"short map rejected with ValueError, not {type(e).__name__}", False)
                return
            ctx.true("a map shorter than the substrates' atoms is rejected", False)
            return
        with ctx.impl("build_model"):
            lm = mapper.build_model(initial_labels=init)
        decl = E.Decl(lm)
        # --- structure: one isotopomer reaction per substrate labelling pattern
        iso_rxns = [r for r in decl.reactions if r.startswith("v__")]
        ctx.true("one isotopomer reaction per substrate pattern", len(iso_rxns) == 2 ** tsl, info=f"{len(iso_rxns)} vs {2 ** tsl}")
        isos = {c: mapper.get_isotopomer_of(c) for c in labels}
        for r in iso_rxns:
            stoich = decl.reactions[r].stoichiometry
            for c, n in st.items():
                members = isos.get(c, [c])
                tot = sum(stoich.get(i, 0) for i in members)
                ctx.true(f"{r}: isotopomer coefficients of {c} sum to the base coefficient", tot == n, info=f"{tot} vs {n}")
            extra = set(stoich) - {i for c in st for i in isos.get(c, [c])}
            ctx.true(f"{r}: touches only isotopomers of the base reaction's compounds", not extra, info=str(extra))
        # --- symbolic state of the labelled model
        names = lm.get_variable_names()
        state = {v: ctx.real(f"s_{v}") for v in names}
        T = 0.0
        with ctx.impl("labelled fluxes"):
            fl = lm.get_fluxes(dict(state), T)
        with ctx.impl("labelled rhs"):
            out = lm(T, [state[v] for v in names])
        dx = dict(zip(names, out))
        # --- positional identity: product position i carries the label of substrate position map[i]
        # (name-free: the substrate pattern of an isotopomer reaction is read from what it consumes)
        sub_pos = []  # global substrate position -> (compound, local position)
        for c in subs:
            for local in range(labels.get(c, 0)):
                sub_pos.append((c, local))

        def sub_bit(r, g):
            c, local = sub_pos[g]
            with_bit = set(mapper.get_isotopomers_of_at_position(c, local))
            consumed = [i for i, coef in decl.reactions[r].stoichiometry.items() if coef < 0 and i in isos.get(c, [])]
            return len(consumed) == 1 and consumed[0] in with_bit

        if self.net != "dimer":
            gpos = 0
            for c in prods:
                nlab = labels.get(c, 0)
                for local in range(nlab):
                    i = gpos + local
                    src = self.lmap[i]
                    with_bit = set(mapper.get_isotopomers_of_at_position(c, local))
                    produced = 0.0
                    expected = 0.0
                    for r in iso_rxns:
                        for iso_name, coef in decl.reactions[r].stoichiometry.items():
                            if iso_name in with_bit and coef > 0:
                                produced = produced + coef * fl[r]
                        if src >= tsl or sub_bit(r, src):
                            expected = expected + st[c] * fl[r]
                    ctx.eq(f"labelled production at product position {i} ({c}[{local}]) = rate of patterns labelled at substrate position {src}"
                           f"{' (external: all)' if src >= tsl else ''}", produced, expected)
                gpos += nlab
        # --- totals of initial values, label placed where requested
        with ctx.impl("initial conditions"):
            ic = lm.get_initial_conditions()
        for c in labels:
            tot = 0.0
            for i in isos[c]:
                tot = tot + ic[i]
            ctx.eq(f"total initial amount of {c}", tot, ctx.real(f"i_{c}"))
        if init is not None:
            c0 = next(iter(labels))
            pos = self.init_label if isinstance(self.init_label, list) else [self.init_label]
            want = c0 + "__" + "".join("1" if j in pos else "0" for j in range(labels[c0]))
            ctx.eq("the requested pattern holds all of the initial amount", ic[want], ctx.real(f"i_{c0}"))
        else:
            for c in labels:
                ctx.eq(f"unlabelled isotopomer of {c} holds the initial amount", ic[isos[c][0]], ctx.real(f"i_{c}"))
        ctx.eq("bystander initial value", ic["Z"], ctx.real("i_Z"))
        # --- dynamics: summed isotopomer derivatives = base rhs at totals (mass action)
        totals = {}
        for v in base.get_variable_names():
            if v in labels:
                t_ = 0.0
                for i in isos[v]:
                    t_ = t_ + state[i]
                totals[v] = t_
            else:
                totals[v] = state[v]
        bdx = E.rhs(base, totals, T)
        for v in base.get_variable_names():
            if v in labels:
                s_ = 0.0
                for i in isos[v]:
                    s_ = s_ + dx[i]
            else:
                s_ = dx[v]
            ctx.eq(f"sum of isotopomer derivatives of {v} = base derivative at totals", s_, bdx[v])


def maps_for(net, tier):
    spec = NETWORKS[net]
    labels = spec["vars"]
    st = spec["rxn"][0]
    tsl = sum(labels.get(c, 0) * -n for c, n in st.items() if n < 0)
    tpl = sum(labels.get(c, 0) * n for c, n in st.items() if n > 0)
    L = max(tsl, tpl)
    rng = tsl + max(tpl - tsl, 0)
    return [m for m in it.product(range(rng), repeat=L)], tsl


def scenarios(tier, seed):
    scs = []
    nets = ["uni", "uni12", "merge", "split", "influx", "efflux", "cofactor", "reversible"] + (
        ["uni3", "merge21", "split21", "influx3", "gain"] if tier != "quick" else [])
    for net in nets:
        maps, tsl = maps_for(net, tier)
        for m in maps:
            if net == "reversible" and sorted(m) != list(range(len(m))):
                continue  # a rate law that reads its product only makes sense for a one-to-one atom map
            scs.append(Iso(net, m))
        # a map shorter than the substrates' atoms (every shorter length, incl. the empty map)
        for n in range(tsl):
            scs.append(Iso(net, tuple(range(n))))
    scs.append(Iso("uni", (1, 0), init_label=1))
    scs.append(Iso("uni", (0, 1), init_label=[0, 1]))
    scs.append(Iso("merge", (1, 0), init_label=0))
    # one mapper object used for two label-count declarations in a row
    scs.append(Iso("uni", (0, 1), relabel=True))
    scs.append(Iso("merge", (1, 0), relabel=True))
    scs.append(Iso("uni12", (0, 0), init_label=0, relabel=True))
    # minimal scenario: homodimer substrate
    scs.append(Iso("dimer", (0, 1)))
    scs.append(Iso("dimer", (1, 0)))
    return scs
