"""C11 — model -> generated MxlPy source -> model preserves behaviour, or fails (DESIGN.md, C11)."""
from __future__ import annotations

import math

from symlift.proxies import MATH
from vf import evaluator as E
from vf import models as M
from vf import ratefns as R
from vf.c11mods import mod_a, mod_b
from vf.common import Scenario

LEVEL = "translation_validation"
META = {
    "bounds": "surrogate-free model shapes of the C01 grammar (incl. initial assignments, named/computed coefficients, time dependence, branches), plus models in "
    "which one function serves several components with different / permuted / repeated argument lists and models using different functions that share "
    "a __name__ (in the same or in different roles); declared values are concrete dyadic numbers (they are printed), state, time and - after the "
    "rebuild - all plain parameter values are symbolic",
    "stubs": ["generated source is exec'd with `math` bound to the UF-backed proxy", "np/pd/float module globals of mxlpy.model rebound to proxies"],
    "outside": "surrogates, units, printing of values that need more than 15 significant digits",
    "assumptions_list": ["real arithmetic", "denominators non-zero"],
}

VALS = [0.5, 1.5, 2.0, 0.25, 3.0, 0.75, 1.25, 4.0]


def extra_specs():
    S = []
    S.append(dict(
        name="shared_fn_permuted_args",
        params=[("k1", None), ("k2", None)],
        vars=[("x", None), ("y", None)],
        derived=[("d1", R.ratio, ["x", "y"]), ("d2", R.ratio, ["y", "x"]), ("d3", R.ratio, ["k1", "x"])],
        reactions=[
            ("v1", R.mass_action_2s, ["x", "d1", "k1"], {"x": -1, "y": 1}),
            ("v2", R.mass_action_2s, ["d2", "y", "k2"], {"y": -1}),
            ("v3", R.mass_action_2s, ["k2", "d3", "x"], {"x": 1}),
        ],
    ))
    S.append(dict(
        name="shared_fn_repeated_args",
        params=[("k1", None)],
        vars=[("x", None), ("y", None)],
        derived=[("dsq", R.mul, ["x", "x"]), ("dxy", R.mul, ["x", "y"])],
        reactions=[
            ("v1", R.mass_action_2s, ["x", "x", "k1"], {"x": -2, "y": 1}),
            ("v2", R.mass_action_2s, ["dsq", "dxy", "k1"], {"y": -1}),
        ],
    ))
    S.append(dict(
        name="repeated_args_emitted_last",
        params=[("k1", None)],
        vars=[("x", None), ("y", None)],
        derived=[("dxy", R.mul, ["x", "y"]), ("dsq", R.mul, ["x", "x"])],
        reactions=[("v1", R.mass_action_2s, ["dsq", "dxy", "k1"], {"x": -1, "y": 1})],
    ))
    S.append(dict(
        name="same_name_same_role",
        params=[("k1", None), ("k2", None)],
        vars=[("x", None), ("y", None)],
        reactions=[
            ("v1", mod_a.scale, ["x", "k1"], {"x": -1, "y": 1}),
            ("v2", mod_b.scale, ["y", "k2"], {"y": -1}),
        ],
    ))
    S.append(dict(
        name="same_name_derived_vs_reaction",
        params=[("k1", None), ("k2", None)],
        vars=[("x", None), ("y", None)],
        derived=[("d1", mod_a.combine, ["x", "y"])],
        reactions=[
            ("v1", mod_b.combine, ["x", "k1"], {"x": -1, "y": 1}),
            ("v2", R.mass_action_1s, ["d1", "k2"], {"y": -1}),
        ],
    ))
    S.append(dict(
        name="same_name_roles_apart",
        params=[("k", None), ("pia", (M.IA, mod_b.scale, ["x", "k"]))],
        vars=[("x", None), ("y", None)],
        derived=[("d1", mod_a.scale, ["x", "k"])],
        reactions=[
            ("v1", mod_a.scale, ["x", "k"], {"x": -1, "y": ("d", mod_b.scale, ["x", "k"])}),
            ("v2", R.mass_action_2s, ["y", "d1", "pia"], {"y": -1}),
        ],
    ))
    S.append(dict(
        name="mixed_chained_comparison",
        params=[("a", None), ("b", None)],
        vars=[("x", None), ("y", None)],
        derived=[("dwin", R.chain_mixed_expr, ["x", "a", "b"])],
        reactions=[("v1", R.chain_cmp_expr, ["x", "a", "b"], {"x": -1, "y": 1}), ("v2", R.mass_action_1s, ["y", "dwin"], {"y": -1})],
    ))
    S.append(dict(
        name="helper_with_partial_defaults",
        params=[("vm", None), ("km", None)],
        vars=[("x", None)],
        reactions=[("v1", R.calls_with_partial_defaults, ["x", "vm", "km"], {"x": -1})],
    ))
    S.append(dict(
        name="arg_shadows_module_constant",
        params=[("k1", None), ("k2", None)],
        vars=[("x", None)],
        derived=[("d1", R.scaled, ["x", "k2"])],
        reactions=[("v1", R.scaled, ["d1", "k1"], {"x": -1})],
    ))
    return S


class Gen(Scenario):
    modules = ["mxlpy.model"]
    float_shim = ["mxlpy.model"]

    def __init__(self, spec):
        self.spec = spec
        self.key = f"C11/{spec['name']}"

    def run(self, ctx):
        from mxlpy.meta.codegen_mxlpy import generate_mxlpy_code

        names_p = [n for n, ia in self.spec.get("params", []) if ia is None]
        names_v = [n for n, ia in self.spec.get("vars", []) if ia is None]
        vals = {n: VALS[i % len(VALS)] for i, n in enumerate(names_p + names_v)}
        m = M.build(self.spec, ctx, vals=vals)
        try:
            src = generate_mxlpy_code(m)
        except Exception as e:  # noqa: BLE001  generation may refuse
            ctx.note(f"generation raised {type(e).__name__}")
            ctx.true("generation refused (raised)", True)
            return
        ns = {"math": MATH if ctx.symbolic else math}
        try:
            exec(compile(src, f"<generated {self.spec['name']}>", "exec"), ns)  # noqa: S102
            new = ns["create_model"]()
        except Exception as e:  # noqa: BLE001
            ctx.true(f"the generated source rebuilds a model (raised {type(e).__name__})", False, info=str(e)[:200])
            return
        d_old, d_new = E.Decl(m), E.Decl(new)
        for kind in ("variables", "parameters", "derived", "reactions"):
            ctx.true(f"same {kind} names", set(getattr(d_old, kind)) == set(getattr(d_new, kind)) and (kind != "variables" or list(d_old.variables) == list(d_new.variables)),
                     info=f"{list(getattr(d_old, kind))} vs {list(getattr(d_new, kind))}")
        if any(set(getattr(d_old, k)) != set(getattr(d_new, k)) for k in ("variables", "parameters", "derived", "reactions")) or list(d_old.variables) != list(d_new.variables):
            return
        with ctx.impl("values of the rebuilt model"):
            ic_o, ic_n = m.get_initial_conditions(), new.get_initial_conditions()
            a_o, a_n = m.get_args(), new.get_args()
        for v in ic_o:
            ctx.eq(f"initial value [{v}]", ic_n[v], ic_o[v])
        for n in d_old.parameters:
            ctx.eq(f"parameter value [{n}]", a_n[n], a_o[n])
        # behaviour for all states / times / plain parameter values
        for n in names_p:
            s_ = ctx.real(f"p_{n}")
            m.update_parameter(n, s_)
            new.update_parameter(n, s_)
        names = list(d_old.variables)
        state = {v: ctx.real(f"s_{v}") for v in names}
        T = ctx.real("T")
        with ctx.impl("rebuilt model evaluates"):
            an = new.get_args(dict(state), T)
            dn = new(T, [state[v] for v in names])
        ao = m.get_args(dict(state), T)
        do = m(T, [state[v] for v in names])
        for n in ao.index:
            if n in an.index:
                ctx.eq(f"get_args[{n}]", an[n], ao[n])
            else:
                ctx.true(f"get_args has {n}", False)
        for i, v in enumerate(names):
            ctx.eq(f"derivative [{v}]", dn[i], do[i])


def _load_as(name, filename):
    import importlib.util
    import sys
    from pathlib import Path

    path = Path(__file__).resolve().parent.parent / "c11mods" / filename
    spec = importlib.util.spec_from_file_location(name, path)
    mod = importlib.util.module_from_spec(spec)
    sys.modules[name] = mod
    spec.loader.exec_module(mod)
    return mod


class GenAfterRedefinition(Gen):
    """Code is generated for a model; then a function is re-defined (same module and qualified name, another body) and code
    is generated for a model that uses the new definition: the second source must describe the second model."""

    def __init__(self):
        self.spec = None
        self.key = "C11/function_redefined_between_generations"

    def run(self, ctx):
        from mxlpy.meta.codegen_mxlpy import generate_mxlpy_code

        def spec_for(mod):
            return dict(name="function_redefined_between_generations", params=[("k", None)], vars=[("x", None)],
                        reactions=[("v1", mod.rate, ["x", "k"], {"x": -1})])

        first = M.build(spec_for(_load_as("c11_redef", "redef_v1.py")), ctx, vals={"k": 1.5, "x": 2.0})
        try:
            generate_mxlpy_code(first)
        except Exception:  # noqa: BLE001,S110
            pass
        self.spec = spec_for(_load_as("c11_redef", "redef_v2.py"))
        Gen.run(self, ctx)


def scenarios(tier, seed):
    scs = []
    base = M.no_surrogates(M.base_shapes()) + extra_specs()
    for s in base:
        orders = M.all_orders(s, kinds=("derived", "reactions")) if tier != "quick" else [s]
        for o in orders:
            scs.append(Gen(o))
    scs.append(GenAfterRedefinition())
    if tier != "quick":
        scs += [Gen(g) for g in M.grammar_shapes(with_surrogates=False)]
    return scs
