"""C08 — SBML export then import reproduces the model, or export fails (DESIGN.md, C08)."""
from __future__ import annotations

import hashlib
import math
import os
import shutil
import sys
import tempfile
from pathlib import Path

from symlift.proxies import MATH
from vf import evaluator as E
from vf import models as M
from vf import ratefns as R
from vf.common import Scenario

LEVEL = "translation_validation"
META = {
    "bounds": "one minimal model per feature named by the property (fractional / negative / named / computed coefficients of either sign, initial assignments "
    "on variables and parameters, conditional expressions, chained comparisons, abs/min/max/sqrt/exp/log/pow, names needing escaping, helper calls, "
    "derived parameters and variables, time) plus composites of the finding-free features; declared values concrete dyadic numbers, state, time and "
    "(after import) all plain parameter values symbolic",
    "stubs": ["libsbml / pysbml run concretely (they are compilers here); `math` of the imported generated module and of vf.ratefns bound to the UF proxy",
              "HOME points at a scratch directory (sbml.read writes its generated module under $HOME/.cache/mxlpy)"],
    "outside": "units, compartments other than the default, surrogates (as the property states)",
    "assumptions_list": ["real arithmetic", "denominators non-zero / arguments inside the functions' domains"],
}

VALS = [0.5, 1.5, 2.0, 0.25, 3.0, 0.75, 1.25, 4.0]
IA = M.IA


def specs():
    S = {}
    S["basic"] = dict(params=[("k1", None), ("k2", None)], vars=[("x", None), ("y", None)],
                      reactions=[("v1", R.mass_action_1s, ["x", "k1"], {"x": -1, "y": 1}), ("v2", R.mass_action_1s, ["y", "k2"], {"y": -1})])
    S["fractional"] = dict(params=[("k1", None)], vars=[("x", None), ("y", None)],
                           reactions=[("v1", R.mass_action_1s, ["x", "k1"], {"x": -1.5, "y": 0.5}), ("v2", R.mass_action_1s, ["y", "k1"], {"y": -0.25, "x": 2})])
    S["named_coef"] = dict(params=[("k1", None), ("n", None)], vars=[("x", None), ("y", None)],
                           reactions=[("v1", R.mass_action_1s, ["x", "k1"], {"x": -1, "y": "n"})])
    S["computed_coef_pos"] = dict(params=[("k1", None), ("k2", None)], vars=[("x", None), ("y", None)],
                                  reactions=[("v1", R.mass_action_1s, ["x", "k1"], {"x": -1, "y": ("d", R.mul, ["k2", "x"])})])
    S["computed_coef_neg"] = dict(params=[("k1", None), ("k2", None)], vars=[("x", None), ("y", None)],
                                  reactions=[("v1", R.mass_action_1s, ["x", "k1"], {"x": ("d", R.neg, ["k2"]), "y": 1})])
    S["ia_variable"] = dict(params=[("k1", None)], vars=[("x", None), ("y", (IA, R.twice, ["x"]))],
                            reactions=[("v1", R.mass_action_1s, ["x", "k1"], {"x": -1, "y": 1})])
    S["ia_parameter"] = dict(params=[("k1", None), ("pia", (IA, R.add, ["k1", "x"]))], vars=[("x", None), ("y", None)],
                             reactions=[("v1", R.mass_action_1s, ["x", "pia"], {"x": -1, "y": 1})])
    S["conditional"] = dict(params=[("k1", None)], vars=[("x", None), ("y", None)],
                            reactions=[("v1", R.cond_expr, ["x", "k1"], {"x": -1, "y": 1})])
    S["chained_comparison"] = dict(params=[("a", None), ("b", None)], vars=[("x", None)],
                                   reactions=[("v1", R.chain_cmp_expr, ["x", "a", "b"], {"x": -1})])
    S["chained_comparison_mixed"] = dict(params=[("a", None), ("b", None)], vars=[("x", None)],
                                         reactions=[("v1", R.chain_mixed_expr, ["x", "a", "b"], {"x": -1})])
    S["exp"] = dict(params=[("k1", None)], vars=[("x", None)], reactions=[("v1", R.exp_law, ["x", "k1"], {"x": -1})])
    S["log"] = dict(params=[("k1", None)], vars=[("x", None)], reactions=[("v1", R.log_law, ["x", "k1"], {"x": -1})])
    S["sqrt"] = dict(params=[("k1", None)], vars=[("x", None)], reactions=[("v1", R.sqrt_law, ["x", "k1"], {"x": -1})])
    S["pow"] = dict(params=[("k1", None)], vars=[("x", None)], reactions=[("v1", R.pow_law, ["x", "k1"], {"x": -1}), ("v2", R.cube_k, ["x", "k1"], {"x": 1})])
    S["sign"] = dict(params=[("k1", None)], vars=[("x", None), ("y", None)], reactions=[("v1", R.sign_law, ["x", "y", "k1"], {"x": -1, "y": 1})])
    S["np_exp"] = dict(params=[("k1", None)], vars=[("x", None)], reactions=[("v1", R.npexp_law, ["x", "k1"], {"x": -1})])
    S["np_sqrt"] = dict(params=[("k1", None)], vars=[("x", None)], reactions=[("v1", R.npsqrt_law, ["x", "k1"], {"x": -1})])
    S["floor"] = dict(params=[("k1", None)], vars=[("x", None)], reactions=[("v1", R.floor_law, ["x", "k1"], {"x": -1})])
    S["round"] = dict(params=[("k1", None)], vars=[("x", None)], reactions=[("v1", R.round_law, ["x", "k1"], {"x": -1})])
    S["np_rint"] = dict(params=[("k1", None)], vars=[("x", None)], reactions=[("v1", R.nprint_law, ["x", "k1"], {"x": -1})])
    S["ceil"] = dict(params=[("k1", None)], vars=[("x", None)], reactions=[("v1", R.ceil_law, ["x", "k1"], {"x": -1})])
    S["np_log10"] = dict(params=[("k1", None)], vars=[("x", None)], reactions=[("v1", R.nplog10_law, ["x", "k1"], {"x": -1})])
    S["log_with_base"] = dict(params=[("k1", None)], vars=[("x", None)], reactions=[("v1", R.logbase_law, ["x", "k1"], {"x": -1})])
    S["remainder"] = dict(params=[("k1", None)], vars=[("x", None), ("y", None)], reactions=[("v1", R.remainder_law, ["x", "y", "k1"], {"x": -1, "y": 1})])
    S["two_computed_coefs_one_species"] = dict(params=[("k1", None), ("k2", None)], vars=[("x", None), ("y", None)], reactions=[
        ("v1", R.mass_action_1s, ["x", "k1"], {"x": -1, "y": ("d", R.twice, ["k2"])}),
        ("v2", R.mass_action_1s, ["x", "k2"], {"x": -1, "y": ("d", R.neg, ["k1"])})])
    S["abs"] = dict(params=[("k1", None)], vars=[("x", None)], reactions=[("v1", R.abs_law, ["x", "k1"], {"x": -1})])
    S["minmax"] = dict(params=[("k1", None)], vars=[("x", None), ("y", None)], reactions=[("v1", R.minmax_law, ["x", "y", "k1"], {"x": -1, "y": 1})])
    S["helper_call"] = dict(params=[("k1", None)], vars=[("x", None)], reactions=[("v1", R.calls_helper, ["x", "k1"], {"x": -1})])
    S["local_assignment"] = dict(params=[("k1", None)], vars=[("x", None)], reactions=[("v1", R.local_assign_law, ["x", "k1"], {"x": -1})])
    S["derived"] = dict(params=[("k1", None), ("k2", None)], vars=[("x", None), ("y", None)],
                        derived=[("dp", R.mul, ["k1", "k2"]), ("dv", R.add, ["x", "y"]), ("dv2", R.mul, ["dv", "dp"])],
                        reactions=[("v1", R.mass_action_2s, ["x", "dv2", "k1"], {"x": -1, "y": 1})])
    S["time"] = dict(params=[("k1", None)], vars=[("x", None)], reactions=[("v1", R.ramp_s, ["x", "k1", "time"], {"x": -1})])
    S["escaped_names"] = dict(params=[("k-1", None), ("K.m", None)], vars=[("glc ext", None), ("2pg", None)],
                              reactions=[("v 1", R.michaelis_menten_1s, ["glc ext", "k-1", "K.m"], {"glc ext": -1, "2pg": 1})])
    S["modifier"] = dict(params=[("k1", None)], vars=[("x", None), ("y", None), ("z", None)],
                         reactions=[("v1", R.mass_action_2s, ["x", "z", "k1"], {"x": -1, "y": 1})])
    for k, v in S.items():
        v["name"] = k
    return S


COMPOSITE_FEATURES = ["basic", "fractional", "conditional", "derived", "modifier", "pow"]


def composite(names):
    S = specs()
    out = dict(name="+".join(names), params=[], vars=[], derived=[], reactions=[])
    for i, n in enumerate(names):
        s = S[n]
        ren = {nm: f"{nm}_{i}" for nm, _ in s["params"] + s["vars"]}
        ren.update({nm: f"{nm}_{i}" for nm, *_ in s.get("derived", []) + s["reactions"]})
        out["params"] += [(ren[nm], ia) for nm, ia in s["params"]]
        out["vars"] += [(ren[nm], ia) for nm, ia in s["vars"]]
        out["derived"] += [(ren[nm], fn, [ren.get(a, a) for a in args]) for nm, fn, args in s.get("derived", [])]
        def rc(co):
            if isinstance(co, str):
                return ren.get(co, co)
            if isinstance(co, tuple) and co and co[0] == "d":
                return ("d", co[1], [ren.get(a, a) for a in co[2]])
            return co

        def ria(ia):
            return None if ia is None else (ia[0], ia[1], [ren.get(a, a) for a in ia[2]])

        out["params"][-len(s["params"]):] = [(ren[nm], ria(ia)) for nm, ia in s["params"]]
        out["vars"][-len(s["vars"]):] = [(ren[nm], ria(ia)) for nm, ia in s["vars"]]
        out["reactions"] += [(ren[nm], fn, [ren.get(a, a) for a in args], {ren[c]: rc(co) for c, co in st.items()}) for nm, fn, args, st in s["reactions"]]
    return out


class RoundTrip(Scenario):
    modules = ["mxlpy.model", "vf.ratefns"]
    float_shim = ["mxlpy.model"]

    def __init__(self, spec, after=None):
        self.spec = spec
        self.after = after  # another model written to and read from a file with the same stem first
        self.key = f"C08/{spec['name']}" + (f"/after-{after['name']}" if after else "")
        self._rt = None

    def roundtrip(self, ctx):
        """write -> read once per scenario (concrete compile step); returns (original, rebuilt | exception)."""
        from mxlpy import sbml
        from mxlpy.sbml._import import valid_filename

        names_p = [n for n, ia in self.spec.get("params", []) if ia is None]
        names_v = [n for n, ia in self.spec.get("vars", []) if ia is None]
        vals = {n: VALS[i % len(VALS)] for i, n in enumerate(names_p + names_v)}
        m = M.build(self.spec, ctx, vals=vals)
        stem = "rt" + hashlib.sha1(self.key.encode()).hexdigest()[:12]
        d = Path(tempfile.mkdtemp(prefix="c08_"))
        try:
            if self.after is not None:
                # an earlier export / import of a different model under the same file name
                try:
                    pn = [n for n, ia in self.after.get("params", []) if ia is None] + [n for n, ia in self.after.get("vars", []) if ia is None]
                    other = M.build(self.after, ctx, vals={n: VALS[(i + 3) % len(VALS)] for i, n in enumerate(pn)})
                    (d / "first").mkdir()
                    sbml.write(other, d / "first" / f"{stem}.xml")
                    sbml.read(d / "first" / f"{stem}.xml")
                except Exception:  # noqa: BLE001
                    pass
            f = d / f"{stem}.xml"
            # ratefns must show the real math module to the exporter / translator
            import numpy as _np_real

            saved = (R.__dict__.get("math"), R.__dict__.get("np"))
            R.__dict__["math"] = math
            R.__dict__["np"] = _np_real
            try:
                sbml.write(m, f)
            except Exception as e:  # noqa: BLE001
                return m, ("write", e), names_p
            finally:
                R.__dict__["math"], R.__dict__["np"] = saved
            try:
                new = sbml.read(f)
            except Exception as e:  # noqa: BLE001
                return m, ("read", e), names_p
            mod = sys.modules.get(valid_filename(stem))
            try:  # declared values, read once (the models are re-parameterised in every run)
                decl = (m.get_initial_conditions(), new.get_initial_conditions(), m.get_args(), new.get_args())
            except Exception as e:  # noqa: BLE001
                decl = e
            return m, ("ok", new, mod, decl), names_p
        finally:
            shutil.rmtree(d, ignore_errors=True)

    def run(self, ctx):
        if self._rt is None or self._rt[3] != ctx.symbolic:
            self._rt = (*self.roundtrip(ctx), ctx.symbolic)
        m, res, names_p, _ = self._rt
        if res[0] == "write":
            ctx.note(f"export raised {type(res[1]).__name__}")
            # a refusal is a deliberate statement about the construct; an exception of the kinds below comes out of the exporter's own
            # machinery (a wrong attribute, a missing key) and says nothing about the model - for the constructs the property names
            # (initial assignments, fractional and computed coefficients, conditionals, derived quantities) that is a failed export
            crashed = isinstance(res[1], AttributeError | TypeError | KeyError | IndexError | NameError | UnboundLocalError)
            ctx.true(f"the export refuses deliberately, it does not crash ({type(res[1]).__name__}: {res[1]})"[:170], not crashed)
            ctx.true("export refused (raised)", True)
            return
        if res[0] == "read":
            ctx.true(f"the written file can be read back ({type(res[1]).__name__}: {res[1]})"[:160], False)
            return
        new, mod = res[1], res[2]
        if mod is not None:
            mod.__dict__["math"] = MATH if ctx.symbolic else math
        d_old, d_new = E.Decl(m), E.Decl(new)
        ids_new = set(new.ids)
        for kind in ("variables", "parameters", "derived", "reactions"):
            for n in getattr(d_old, kind):
                ctx.true(f"{kind[:-1] if kind != 'derived' else 'derived'} '{n}' exists under its name", n in ids_new, info=str(sorted(ids_new))[:200])
        if any(n not in ids_new for kind in ("variables", "parameters", "derived", "reactions") for n in getattr(d_old, kind)):
            return
        if isinstance(res[3], Exception):
            ctx.true(f"the re-imported model evaluates at its initial state ({type(res[3]).__name__}: {res[3]})"[:160], False)
            return
        ic_o, ic_n, a_o, a_n = res[3]
        for v in ic_o:
            if v in ic_n:
                ctx.eq(f"initial value [{v}]", ic_n[v], ic_o[v])
            else:
                ctx.true(f"'{v}' is still a variable", False)
        for n in d_old.parameters:
            if n in a_n.index:
                ctx.eq(f"parameter value [{n}]", a_n[n], a_o[n])
        # behaviour at every state / time / plain parameter value
        for n in names_p:
            s_ = ctx.real(f"p_{n}")
            m.update_parameter(n, s_)
            if n in d_new.parameters:
                new.update_parameter(n, s_)
        names = list(d_old.variables)
        if any(v not in d_new.variables for v in names):
            return
        state = {v: ctx.real(f"s_{v}") for v in names}
        extra = {v: ctx.real(f"s_{v}") for v in d_new.variables if v not in state}
        T = ctx.real("T")
        try:
            ao = m.get_args(dict(state), T)
            do = dict(zip(names, m(T, [state[v] for v in names])))
        except (ValueError, ZeroDivisionError):
            return  # outside the domain of the original model's rate laws
        with ctx.impl("re-imported model evaluates"):
            st_new = {**state, **extra}
            an = new.get_args(dict(st_new), T)
            dn = dict(zip(new.get_variable_names(), new(T, [st_new[v] for v in new.get_variable_names()])))
        for n in list(d_old.derived) + list(d_old.reactions):
            if n in an.index:
                ctx.eq(f"value of {n}", an[n], ao[n])
        for v in names:
            ctx.eq(f"derivative of {v}", dn[v], do[v])


def scenarios(tier, seed):
    import itertools as it

    S = specs()
    scs = [RoundTrip(s) for s in S.values()]
    pairs = list(it.combinations(COMPOSITE_FEATURES, 2))
    if tier == "quick":
        pairs = pairs[::2]
    for p in pairs:
        scs.append(RoundTrip(composite(p)))
    # a second document with the same file name in the same session
    scs.append(RoundTrip(S["fractional"], after=S["basic"]))
    scs.append(RoundTrip(S["derived"], after=S["conditional"]))
    scs.append(RoundTrip(S["basic"], after=S["basic"]))
    if tier != "quick":
        for t in it.combinations(COMPOSITE_FEATURES, 3):
            scs.append(RoundTrip(composite(t)))
        more = COMPOSITE_FEATURES + ["ia_variable", "ia_parameter", "abs", "minmax", "sqrt", "log", "time", "computed_coef_pos", "computed_coef_neg", "named_coef"]
        have = {s_.key for s_ in scs}
        for p_ in it.combinations(more, 2):
            sc_ = RoundTrip(composite(p_))
            if sc_.key not in have:
                scs.append(sc_)
    return scs


def _set_home():
    d = tempfile.mkdtemp(prefix="vf_home_")
    os.environ["HOME"] = d
    import atexit

    atexit.register(shutil.rmtree, d, ignore_errors=True)


_set_home()
