"""C12 — symbolic equations and Jacobian agree with the numeric model (DESIGN.md, C12)."""
from __future__ import annotations

from functools import partial

import z3

from symlift.core import SymReal
from vf import evaluator as E
from vf import models as M
from vf import ratefns as R
from vf import sym2z3, zdiff
from vf.common import Scenario, as_term
from vf.flow import FlowModel, StubSPI

VALS = [0.5, 1.5, 2.0, 0.25, 3.0, 0.75, 1.25, 4.0]
LEVEL = "translation_validation"
META = {
    "bounds": "surrogate-free model shapes of the C01 grammar plus library-law models (mass action, Michaelis-Menten, reversible, moiety), every "
    "declaration order of derived quantities / reactions (thorough) or the reversed one (quick); Jacobian callback for methods LSODA, BDF, Radau "
    "before and after parameter updates; state, time and parameter values symbolic",
    "stubs": ["scipy.integrate.solve_ivp -> stub that captures the `jac` callable handed to the integrator",
              "np/pd/float module globals of mxlpy.model, mxlpy.simulator, mxlpy.integrators.int_scipy rebound to proxies"],
    "outside": "'same trajectories with and without Jacobian' as a numerical statement (replaced by: the integrator receives the exact Jacobian of the "
    "function it integrates, at the current parameter values); piecewise laws are compared on each side of their boundaries",
    "assumptions_list": ["real arithmetic", "denominators non-zero"],
}


def lib_shapes():
    import mxlpy.fns as F

    S = []
    S.append(dict(
        name="lib_mm_rev",
        params=[("vmax", None), ("km", None), ("kf", None), ("keq", None)],
        vars=[("s", None), ("p", None)],
        derived=[("d_keq2", F.mul, ["keq", "kf"]), ("d_sum", F.add, ["s", "p"])],
        reactions=[
            ("v1", F.michaelis_menten_1s, ["s", "vmax", "km"], {"s": -1, "p": 1}),
            ("v2", F.mass_action_2s, ["p", "d_sum", "kf"], {"p": -1, "s": 0.5}),
        ],
    ))
    S.append(dict(
        name="lib_derived_chain",
        params=[("k1", None), ("k2", None), ("tot", None)],
        vars=[("x", None)],
        derived=[
            ("d3", F.mul, ["d2", "k2"]),
            ("d2", F.add, ["d1", "k1"]),
            ("d1", F.moiety_1s, ["x", "tot"]),
        ],
        reactions=[
            ("v1", F.mass_action_1s, ["x", "k1"], {"x": -1}),
            ("v2", F.mass_action_1s, ["d3", "k2"], {"x": 1}),
        ],
    ))
    S.append(dict(
        name="sign_guards",
        params=[("dg", None), ("k", None)],
        vars=[("x", None), ("y", None)],
        reactions=[
            ("v1", R.guard_param, ["x", "dg", "k"], {"x": -1, "y": 1}),
            ("v2", R.guard_state, ["y", "k"], {"y": -1}),
        ],
    ))
    return S


def library_models():
    """One model per function of mxlpy.fns used as a rate law, and per pair (derived law, rate law), in both
    declaration orders of the derived quantities (C12: 'models built from the shipped rate-law library convert
    whatever the declaration order of their derived quantities')."""
    import inspect

    import mxlpy.fns as F

    fns = [(n, f) for n, f in sorted(vars(F).items()) if inspect.isfunction(f) and f.__module__ == F.__name__ and not n.startswith("_")]
    S = []
    variables = ["x", "y", "z"]

    def args_for(f, pool_vars, prefix):
        names = list(inspect.signature(f).parameters)
        out, params = [], []
        vi = 0
        for a in names:
            if a.startswith(("s", "p", "x", "inside", "outside")) and a not in ("x_total",) and vi < len(pool_vars):
                out.append(pool_vars[vi])
                vi += 1
            else:
                pn = f"{prefix}_{a}"
                out.append(pn)
                params.append(pn)
        return out, params

    for n, f in fns:
        a, params = args_for(f, variables, "r")
        S.append(dict(name=f"libfn/{n}", params=[(p_, None) for p_ in params] or [("r_dummy", None)], vars=[(v, None) for v in variables],
                      reactions=[("v1", f, a, {"x": -1, "y": 1}), ("v2", F.mass_action_1s, ["y", params[0] if params else "r_dummy"], {"y": -1, "z": 0.5})]))
    derived_fns = [(n, f) for n, f in fns if n in ("add", "mul", "minus", "div", "moiety_1s", "moiety_2s", "twice", "neg", "proportional", "one_div", "neg_div")]
    for (n1, f1), (n2, f2) in [(a, b) for a in derived_fns for b in derived_fns if a[0] <= b[0]]:
        a1, p1 = args_for(f1, ["x", "y"], "d1")
        names2 = list(inspect.signature(f2).parameters)
        a2 = ["dq1"] + [f"d2_{q}" for q in names2[1:]]
        p2 = a2[1:]
        for rev in (False, True):
            derived = [("dq1", f1, a1), ("dq2", f2, a2)]
            S.append(dict(name=f"libchain/{n1}-{n2}{'/rev' if rev else ''}", params=[(p_, None) for p_ in p1 + p2 + ["k"]],
                          vars=[("x", None), ("y", None)], derived=derived[::-1] if rev else derived,
                          reactions=[("v1", F.mass_action_2s, ["x", "dq2", "k"], {"x": -1, "y": 1})]))
    return S


class Sym(Scenario):
    modules = ["mxlpy.model", "mxlpy.simulator", "mxlpy.integrators.int_scipy"]
    float_shim = ["mxlpy.model", "mxlpy.simulator"]

    def __init__(self, spec):
        self.spec = spec
        self.key = f"C12/sym/{spec['name']}"

    def run(self, ctx):
        from mxlpy import to_symbolic_model

        # conversion is a compile step: it runs on concrete declared values (sympy.Float of a number); afterwards every
        # plain parameter is re-declared as a symbol so that the comparison holds "at every parameter setting"
        names_p = [n for n, ia in self.spec.get("params", []) if ia is None]
        names_v = [n for n, ia in self.spec.get("vars", []) if ia is None]
        vals = {n: VALS[i % len(VALS)] for i, n in enumerate(names_p + names_v)}
        m = M.build(self.spec, ctx, vals=vals)
        decl = E.Decl(m)
        names = list(decl.variables)
        state = {v: ctx.real(f"s_{v}") for v in names}
        T = ctx.real("T")
        try:
            sm = to_symbolic_model(m)
        except Exception as e:  # noqa: BLE001  a visible failure is acceptable
            ctx.note(f"refused: {type(e).__name__}")
            ctx.true("conversion refused (raised)", True)
            if self.spec["name"].startswith("lib"):
                ctx.true("models built from the shipped rate-law library convert whatever the declaration order", False,
                         info=f"{type(e).__name__}: {e}")
            return
        ctx.true("one equation per variable, in variable order", list(sm.variables) == names and len(sm.eqs) == len(names),
                 info=f"{list(sm.variables)} / {len(sm.eqs)} eqs vs {names}")
        if list(sm.variables) != names or len(sm.eqs) != len(names):
            return
        for pn in names_p:
            m.update_parameter(pn, ctx.real(f"p_{pn}"))
        decl = E.Decl(m)
        env = dict(state)
        e0 = E.init_env(decl)
        for pn in decl.parameters:
            env[pn] = e0[pn]
        env["time"] = T
        dx = E.rhs(decl, state, T)
        try:
            vals = [sym2z3.ev(eq, env) for eq in sm.eqs]
        except sym2z3.Untranslatable as e:
            ctx.true(f"symbolic equations only name variables and parameters ({e})", False)
            return
        for v, val in zip(names, vals):
            ctx.eq(f"eqs[{v}] = numeric derivative", val, dx[v])
        # Jacobian: symbolic vs term-level derivative of the lifted numeric right-hand side
        with ctx.impl("jacobian()"):
            J = sm.jacobian()
        out = m(T, [state[v] for v in names])
        for i, vi in enumerate(names):
            for j, vj in enumerate(names):
                try:
                    dterm = zdiff.d(as_term(out[i]), state[vj].t if isinstance(state[vj], SymReal) else None) if ctx.symbolic else None
                except zdiff.NotDifferentiable:
                    continue
                jv = sym2z3.ev(J[i, j], env)
                if ctx.symbolic:
                    ctx.eq(f"J[{vi},{vj}] = d rhs_{vi} / d {vj}", jv, SymReal(dterm))
                else:
                    # concrete replay: central difference of the real model
                    h = 1e-6
                    up = dict(state)
                    up[vj] = state[vj] + h
                    lo = dict(state)
                    lo[vj] = state[vj] - h
                    fd = (m(T, [up[v] for v in names])[i] - m(T, [lo[v] for v in names])[i]) / (2 * h)
                    ctx.eq(f"J[{vi},{vj}] = d rhs_{vi} / d {vj}", jv, fd)


class JacCallback(Scenario):
    modules = ["mxlpy.model", "mxlpy.simulator", "mxlpy.integrators.int_scipy", "mxlpy.simulation"]
    float_shim = ["mxlpy.model", "mxlpy.simulator"]

    def __init__(self, spec, method, ops, y0_order=None):
        self.spec = spec
        self.method = method
        self.ops = tuple(ops)
        self.y0_order = y0_order  # None: default start values; "reversed": an explicit y0 dict in reversed key order
        self.key = f"C12/jac/{spec['name']}/{method}/{'-'.join(ops) or 'fresh'}{'' if y0_order is None else '/y0-' + y0_order}"

    def run(self, ctx):
        import mxlpy.integrators.int_scipy as isc

        saved = isc.spi
        spi = StubSPI(FlowModel("generic"), ctx.symbolic)
        spi.fm.flow = lambda pvals, y0, t0, t, symbolic: [y for y in y0]  # values are irrelevant here
        isc.spi = spi
        try:
            self._run(ctx, spi)
        finally:
            isc.spi = saved

    def _run(self, ctx, spi):
        from mxlpy import Scipy, Simulator, to_symbolic_model

        m = M.build(self.spec, ctx)
        names = m.get_variable_names()
        convertible = True
        try:
            to_symbolic_model(m)
        except Exception:  # noqa: BLE001
            convertible = False
        y0 = None
        if self.y0_order is not None:
            y0 = {v: ctx.real(f"y0_{v}") for v in (names[::-1] if self.y0_order == "reversed" else names)}
        with ctx.impl("Simulator(use_jacobian=True)"):
            sim = Simulator(m, y0=y0, use_jacobian=True, integrator=partial(Scipy, method=self.method))
        t_end = 1.0
        for i, op in enumerate(self.ops):
            with ctx.impl(f"op{i} {op}"):
                if op == "UP":
                    pn = [n for n, ia in self.spec["params"] if ia is None]
                    sim.update_parameter(pn[0], ctx.real(f"pv{i}"))
                elif op == "UPS":
                    pn = [n for n, ia in self.spec["params"] if ia is None]
                    sim.update_parameters({n: ctx.real(f"pv{i}_{n}") for n in pn})
                elif op == "SC":
                    pn = [n for n, ia in self.spec["params"] if ia is None]
                    sim.scale_parameter(pn[-1], ctx.real(f"pf{i}"))
                elif op == "S":
                    sim.simulate(t_end, steps=1)
                    t_end += 1.0
                elif op == "UR":
                    # the first rate law is replaced by one that cannot be translated (a loop)
                    rn = self.spec["reactions"][0][0]
                    pn = [n for n, ia in self.spec["params"] if ia is None]
                    m.update_reaction(rn, fn=R.uses_loop, args=[names[0], pn[0]])
                elif op == "CL":
                    sim.clear_results()
                elif op == "UV":
                    sim.update_variable(names[0], ctx.real(f"uv{i}"))
        if any(op == "UR" for op in self.ops):
            try:
                to_symbolic_model(m)
                convertible = True
            except Exception:  # noqa: BLE001
                convertible = False
        with ctx.impl("simulate"):
            sim.simulate(t_end, steps=1)
        ctx.true("the integrator was called", len(spi.calls) >= 1)
        jac = spi.calls[-1]["jac"]
        ctx.true("the method is handed to solve_ivp", spi.calls[-1]["method"] == self.method)
        if not convertible:
            ctx.true("a model that cannot be converted falls back to jac=None", jac is None)
            return
        ctx.true("a convertible model hands a Jacobian to the integrator", jac is not None)
        if jac is None:
            return
        state = {v: ctx.real(f"s_{v}") for v in names}
        T = ctx.real("T")
        with ctx.impl("jac(t, y)"):
            Jv = jac(T, [state[v] for v in names])
        out = m(T, [state[v] for v in names])
        shape_ok = len(Jv) == len(names) and all(len(r_) == len(names) for r_ in Jv)
        ctx.true("the Jacobian handed to the integrator is n x n for n variables", shape_ok, info=str(getattr(Jv, "shape", None)))
        if not shape_ok:
            return
        for i, vi in enumerate(names):
            for j, vj in enumerate(names):
                got = Jv[i][j]
                if ctx.symbolic:
                    try:
                        dterm = zdiff.d(as_term(out[i]), state[vj].t)
                    except zdiff.NotDifferentiable:
                        continue
                    ctx.eq(f"jac callback [{vi},{vj}] = d rhs_{vi}/d {vj} at the current parameter values", got, SymReal(dterm))
                else:
                    h = 1e-6
                    up = dict(state)
                    up[vj] = state[vj] + h
                    lo = dict(state)
                    lo[vj] = state[vj] - h
                    fd = (m(T, [up[v] for v in names])[i] - m(T, [lo[v] for v in names])[i]) / (2 * h)
                    ctx.eq(f"jac callback [{vi},{vj}] = d rhs_{vi}/d {vj} at the current parameter values", got, fd)


def scenarios(tier, seed):
    scs = []
    base = M.no_surrogates(M.base_shapes()) + lib_shapes()
    for s in base:
        orders = M.all_orders(s, kinds=("derived", "reactions")) if tier != "quick" else [s] + (
            [M.permuted(s, "derived", -1)] if len(s.get("derived", [])) >= 2 else [])
        for o in orders:
            scs.append(Sym(o))
    lib = library_models()
    scs += [Sym(s_) for s_ in (lib if tier != "quick" else [l_ for l_ in lib if l_["name"].startswith("libfn/") or l_["name"].endswith("/rev")][::2])]
    if tier != "quick":
        scs += [Sym(g) for g in M.grammar_shapes(with_surrogates=False)]
    jac_specs = [s for s in base if s["name"] in ("chain2", "mm_moiety", "lib_mm_rev", "untouched", "time_dep", "frac_coef", "sign_guards")]
    for s in jac_specs:
        for method in ("LSODA", "BDF", "Radau"):
            for ops in ((), ("UP",), ("S", "UPS"), ("SC", "S")):
                if tier == "quick" and method != "Radau" and ops not in ((), ("UP",)):
                    continue
                scs.append(JacCallback(s, method, ops))
        if s["name"] in ("chain2", "lib_mm_rev"):
            # the model stops being translatable after the simulator was built: the next integrator must not get the old Jacobian
            scs.append(JacCallback(s, "Radau", ("UR", "CL")))
            scs.append(JacCallback(s, "BDF", ("S", "UR", "UV")))
        scs.append(JacCallback(s, "Radau", (), y0_order="reversed"))
        scs.append(JacCallback(s, "BDF", ("UP",), y0_order="reversed"))
    return scs
