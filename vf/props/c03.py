"""C03 — edit histories: answers depend only on the model's current content (DESIGN.md, C03)."""
from __future__ import annotations

import copy
import itertools as it

import pandas as pd
import z3

from symlift.core import SymReal
from vf import ratefns as R
from vf.common import Scenario, as_term

LEVEL = "model_checking"
META = {
    "bounds": "histories query, op1, query, op2 (quick: all pairs of ~60 operation instances over the finding-free mutators; thorough: + triples over a reduced "
    "alphabet) on a base model with parameters, variables, a derived chain, reactions with numeric/named/computed coefficients, a readout, a two-output "
    "surrogate and a data set; argument names from {existing, fresh, just removed, clashing with another kind}; every numeric value carried by an edit symbolic",
    "stubs": ["pd/np/float module globals of mxlpy.model rebound to proxies"],
    "outside": "histories longer than the bound; unit/source metadata",
    "assumptions_list": ["the oracle is a fresh Model rebuilt through the public add_* calls from the edited model's own containers (what an edit *means* is not encoded)",
                         "real arithmetic"],
}


def base_model(ctx):
    from mxlpy import Model
    from mxlpy.surrogates.abstract import MockSurrogate

    m = Model()
    m.add_parameter("k1", ctx.real("p_k1"))
    m.add_parameter("k2", ctx.real("p_k2"))
    m.add_parameter("n", ctx.real("p_n"))
    m.add_parameter("ku", ctx.real("p_ku"))  # unused parameter
    m.add_variable("x", ctx.real("i_x"))
    m.add_variable("y", ctx.real("i_y"))
    m.add_variable("z", ctx.real("i_z"))
    m.add_derived("d1", R.add, args=["x", "k1"])
    m.add_derived("d2", R.mul, args=["d1", "k2"])
    m.add_derived("dp", R.twice, args=["k2"])
    m.add_reaction("v1", R.mass_action_1s, args=["x", "k1"], stoichiometry={"x": -1, "y": "n"})
    m.add_reaction("v2", R.mass_action_1s, args=["d2", "dp"], stoichiometry={"y": -1, "z": 0.5})
    m.add_readout("ro", R.mul, args=["x", "v1"])
    m.add_surrogate("sur", MockSurrogate(fn=R.two_outputs, args=["x", "k1"], outputs=["sf", "so"], stoichiometries={"sf": {"z": -1}}))
    m.add_data("dat", pd.Series({"a": 1.0, "b": 2.0}))
    return m


def _ia(fn, args):
    from mxlpy.types import InitialAssignment

    return InitialAssignment(fn=fn, args=list(args))


def _derived(fn, args):
    from mxlpy.types import Derived

    return Derived(fn=fn, args=list(args))


def mock(args, outputs, st):
    from mxlpy.surrogates.abstract import MockSurrogate

    return MockSurrogate(fn=R.two_outputs, args=list(args), outputs=list(outputs), stoichiometries=st)


# an operation instance = (label, callable(model, ctx, step)); values carried by edits are fresh symbols
def ops():
    O = []

    def op(label):
        def deco(fn):
            O.append((label, fn))
            return fn
        return deco

    V = lambda ctx, i, tag: ctx.real(f"e{i}_{tag}")  # noqa: E731
    for nm in ("pnew", "k1", "x", "d1", "v1", "sf", "sur", "ro", "dat", "time"):
        op(f"add_parameter({nm})")(lambda m, ctx, i, nm=nm: m.add_parameter(nm, V(ctx, i, "p")))
    for nm in ("k1", "ku", "n", "nope", "x"):
        op(f"remove_parameter({nm})")(lambda m, ctx, i, nm=nm: m.remove_parameter(nm))
    for nm in ("k1", "n", "nope", "x"):
        op(f"update_parameter({nm})")(lambda m, ctx, i, nm=nm: m.update_parameter(nm, V(ctx, i, "p")))
    for nm in ("k2", "n"):
        op(f"scale_parameter({nm})")(lambda m, ctx, i, nm=nm: m.scale_parameter(nm, V(ctx, i, "f")))
    op("add_parameters(p1,p2)")(lambda m, ctx, i: m.add_parameters({"p1": V(ctx, i, "a"), "p2": V(ctx, i, "b")}))
    op("add_parameters(p1,k1)")(lambda m, ctx, i: m.add_parameters({"p1": V(ctx, i, "a"), "k1": V(ctx, i, "b")}))
    op("remove_parameters(ku,n)")(lambda m, ctx, i: m.remove_parameters(["ku", "n"]))
    op("scale_parameters(k1,k2)")(lambda m, ctx, i: m.scale_parameters({"k1": V(ctx, i, "a"), "k2": V(ctx, i, "b")}))
    op("add_variables(w1,w2)")(lambda m, ctx, i: m.add_variables({"w1": V(ctx, i, "a"), "w2": V(ctx, i, "b")}))
    op("update_variables(x,y)")(lambda m, ctx, i: m.update_variables({"x": V(ctx, i, "a"), "y": V(ctx, i, "b")}))
    op("remove_variables(z)")(lambda m, ctx, i: m.remove_variables(["z"]))
    op("update_parameter(k1 -> assignment)")(lambda m, ctx, i: m.update_parameter("k1", _ia(R.twice, ["k2"])))
    op("update_variable(y -> assignment)")(lambda m, ctx, i: m.update_variable("y", _ia(R.add, ["x", "k1"])))
    op("update_parameters(k1,k2)")(lambda m, ctx, i: m.update_parameters({"k1": V(ctx, i, "a"), "k2": V(ctx, i, "b")}))
    op("make_parameter_dynamic(ku)")(lambda m, ctx, i: m.make_parameter_dynamic("ku"))
    op("make_parameter_dynamic(ku,stoich v1)")(lambda m, ctx, i: m.make_parameter_dynamic("ku", initial_value=V(ctx, i, "iv"), stoichiometries={"v1": 1.0}))
    op("make_parameter_dynamic(ku,stoich nope)")(lambda m, ctx, i: m.make_parameter_dynamic("ku", stoichiometries={"nope": 1.0}))
    for nm in ("w", "x", "k1", "so", "d1"):
        op(f"add_variable({nm})")(lambda m, ctx, i, nm=nm: m.add_variable(nm, V(ctx, i, "v")))
    for nm in ("z", "y", "nope", "k1"):
        op(f"remove_variable({nm})")(lambda m, ctx, i, nm=nm: m.remove_variable(nm))
    op("remove_variable(x, keep stoichiometries)")(lambda m, ctx, i: m.remove_variable("x", remove_stoichiometries=False))
    op("remove_variable(x)")(lambda m, ctx, i: m.remove_variable("x"))
    op("remove_variable(n)")(lambda m, ctx, i: m.remove_variable("n"))  # a parameter named by a stoichiometry
    for nm in ("x", "nope"):
        op(f"update_variable({nm})")(lambda m, ctx, i, nm=nm: m.update_variable(nm, V(ctx, i, "v")))
    op("make_variable_static(z)")(lambda m, ctx, i: m.make_variable_static("z"))
    op("make_variable_static(z,value)")(lambda m, ctx, i: m.make_variable_static("z", V(ctx, i, "sv")))
    for nm in ("d3", "d1", "x", "sf"):
        op(f"add_derived({nm})")(lambda m, ctx, i, nm=nm: m.add_derived(nm, R.add, args=["y", "k2"]))
    op("add_derived(d3 on d2)")(lambda m, ctx, i: m.add_derived("d3", R.mul, args=["d2", "k1"]))
    op("update_derived(d1 args)")(lambda m, ctx, i: m.update_derived("d1", args=["y", "k2"]))
    op("update_derived(d1 fn)")(lambda m, ctx, i: m.update_derived("d1", fn=R.mul))
    op("update_derived(dp -> state dependent)")(lambda m, ctx, i: m.update_derived("dp", args=["x"]))
    op("update_derived(nope)")(lambda m, ctx, i: m.update_derived("nope", fn=R.mul))
    for nm in ("dp", "d2", "d1", "nope"):
        op(f"remove_derived({nm})")(lambda m, ctx, i, nm=nm: m.remove_derived(nm))
    for nm in ("v3", "v1", "x"):
        op(f"add_reaction({nm})")(lambda m, ctx, i, nm=nm: m.add_reaction(nm, R.mass_action_1s, args=["y", "k2"], stoichiometry={"y": -1, "x": 1}))
    op("update_reaction(v1 stoich)")(lambda m, ctx, i: m.update_reaction("v1", stoichiometry={"x": -2, "z": 1}))
    op("update_reaction(v2 stoich state dependent)")(lambda m, ctx, i: m.update_reaction("v2", stoichiometry={"y": -1, "z": _derived(R.mul, ["x", "k2"])}))
    # a readout whose function takes two arguments, declared with one: every query of a fresh model refuses it
    op("add_readout(rbad wrong arity)")(lambda m, ctx, i: m.add_readout("rbad", R.mul, args=["x"]))
    # the stoichiometry given as a list of pairs (a caller error): the rejected call must leave no name behind
    op("add_reaction(v4 stoichiometry as list)")(lambda m, ctx, i: m.add_reaction("v4", R.mass_action_1s, args=["x", "k1"], stoichiometry=[("x", -1.0)]))
    # the surrogate object that is already part of the model, added a second time under another name and wiring
    op("add_surrogate(s3 same object as sur)")(lambda m, ctx, i: m.add_surrogate(
        "s3", m.get_raw_surrogates(as_copy=False)["sur"], args=["y", "k2"], outputs=["tf3", "to3"], stoichiometries={"tf3": {"y": -1}}))
    # z leaves the dynamics and comes back with the stoichiometries it had (a reaction and a surrogate flux)
    op("make_parameter_dynamic(z back, stoich v2+sf)")(lambda m, ctx, i: m.make_parameter_dynamic("z", stoichiometries={"v2": 0.5, "sf": -1}))
    op("update_reaction(v1 args)")(lambda m, ctx, i: m.update_reaction("v1", args=["y", "k2"]))
    op("update_reaction(v2 fn)")(lambda m, ctx, i: m.update_reaction("v2", fn=R.mass_action_2s, args=["x", "y", "k1"]))
    op("update_reaction(nope)")(lambda m, ctx, i: m.update_reaction("nope", args=["y", "k2"]))
    for nm in ("v1", "v2", "nope"):
        op(f"remove_reaction({nm})")(lambda m, ctx, i, nm=nm: m.remove_reaction(nm))
    for nm in ("ro2", "ro", "x"):
        op(f"add_readout({nm})")(lambda m, ctx, i, nm=nm: m.add_readout(nm, R.add, args=["x", "y"]))
    for nm in ("ro", "nope"):
        op(f"remove_readout({nm})")(lambda m, ctx, i, nm=nm: m.remove_readout(nm))
    op("add_surrogate(s2)")(lambda m, ctx, i: m.add_surrogate("s2", mock(["y", "k2"], ["tf", "to"], {"tf": {"y": -1}})))
    op("add_surrogate(s2 outputs=)")(lambda m, ctx, i: m.add_surrogate("s2", mock(["y", "k2"], ["c1", "c2"], {}), outputs=["tf", "to"], stoichiometries={"tf": {"y": -1}}))
    op("add_surrogate(sur)")(lambda m, ctx, i: m.add_surrogate("sur", mock(["y", "k2"], ["tf", "to"], {})))
    op("add_surrogate(s2 output clashes k1)")(lambda m, ctx, i: m.add_surrogate("s2", mock(["y", "k2"], ["tf", "k1"], {})))
    op("update_surrogate(sur args)")(lambda m, ctx, i: m.update_surrogate("sur", args=["y", "k2"]))
    op("update_surrogate(sur outputs)")(lambda m, ctx, i: m.update_surrogate("sur", outputs=["sf2", "so2"], stoichiometries={"sf2": {"z": -1}}))
    op("update_surrogate(sur output clashes k1)")(lambda m, ctx, i: m.update_surrogate("sur", outputs=["sf", "k1"]))
    op("update_surrogate(nope)")(lambda m, ctx, i: m.update_surrogate("nope", args=["y", "k2"]))
    op("remove_surrogate(sur)")(lambda m, ctx, i: m.remove_surrogate("sur"))
    op("remove_surrogate(nope)")(lambda m, ctx, i: m.remove_surrogate("nope"))
    op("add_data(dat2)")(lambda m, ctx, i: m.add_data("dat2", pd.Series({"a": 3.0})))
    op("add_data(dat)")(lambda m, ctx, i: m.add_data("dat", pd.Series({"a": 3.0})))
    op("add_data(x)")(lambda m, ctx, i: m.add_data("x", pd.Series({"a": 3.0})))
    op("update_data(dat)")(lambda m, ctx, i: m.update_data("dat", pd.Series({"a": 5.0})))
    op("remove_data(dat)")(lambda m, ctx, i: m.remove_data("dat"))
    op("remove_data(nope)")(lambda m, ctx, i: m.remove_data("nope"))
    op("add_derived(dd on dat)")(lambda m, ctx, i: m.add_derived("dd", R.first_of, args=["dat"]))
    return O


# operation instances that expose an open finding on their own: probed alone, kept out of composite histories
TAINTED = set()  # every operation instance takes part in composite histories (the partial plural edits were repaired in 6b35c85)


# edits that must be accepted when the history before them makes them legitimate
MUST_ACCEPT = {
    "make_parameter_dynamic(z back, stoich v2+sf)": lambda before: [l for l, _ in before] == ["make_variable_static(z)"],
}


def eq(a, b):
    if isinstance(a, SymReal) or isinstance(b, SymReal):
        ta, tb = as_term(a), as_term(b)
        return z3.eq(z3.simplify(ta), z3.simplify(tb))
    try:
        r = a == b
        return bool(r) if not hasattr(r, "all") else bool(r.all())
    except Exception:  # noqa: BLE001
        return a is b


def snapshot(m):
    """Structural snapshot of the model's content (containers + ids)."""
    snap = {"ids": dict(m._ids)}  # noqa: SLF001
    snap["parameters"] = {k: v.value for k, v in m._parameters.items()}  # noqa: SLF001
    snap["variables"] = {k: v.initial_value for k, v in m._variables.items()}  # noqa: SLF001
    snap["derived"] = {k: (v.fn, tuple(v.args)) for k, v in m._derived.items()}  # noqa: SLF001
    snap["reactions"] = {k: (v.fn, tuple(v.args), tuple(sorted((c, repr(s)) for c, s in v.stoichiometry.items()))) for k, v in m._reactions.items()}  # noqa: SLF001
    snap["readouts"] = {k: (v.fn, tuple(v.args)) for k, v in m._readouts.items()}  # noqa: SLF001
    snap["surrogates"] = {k: (tuple(v.args), tuple(v.outputs), repr(v.stoichiometries)) for k, v in m._surrogates.items()}  # noqa: SLF001
    snap["data"] = {k: id(v) for k, v in m._data.items()}  # noqa: SLF001
    return snap


def same_snapshot(a, b):
    if a.keys() != b.keys():
        return False
    for k in a:
        if list(a[k]) != list(b[k]):
            return False
        for n in a[k]:
            va, vb = a[k][n], b[k][n]
            if isinstance(va, tuple):
                if len(va) != len(vb) or any(not eq(x, y) for x, y in zip(va, vb)):
                    return False
            elif not eq(va, vb):
                return False
    return True


def ids_consistent(m):
    exp = {}
    for k in m._parameters:  # noqa: SLF001
        exp[k] = "parameter"
    for k in m._variables:  # noqa: SLF001
        exp[k] = "variable"
    for k in m._derived:  # noqa: SLF001
        exp[k] = "derived"
    for k in m._reactions:  # noqa: SLF001
        exp[k] = "reaction"
    for k in m._readouts:  # noqa: SLF001
        exp[k] = "readout"
    for k, s in m._surrogates.items():  # noqa: SLF001
        exp[k] = "surrogate"
        for o in s.outputs:
            exp[o] = "surrogate"
    for k in m._data:  # noqa: SLF001
        exp[k] = "data"
    n_names = (len(m._parameters) + len(m._variables) + len(m._derived) + len(m._reactions) + len(m._readouts)  # noqa: SLF001
               + len(m._surrogates) + sum(len(s.outputs) for s in m._surrogates.values()) + len(m._data))  # noqa: SLF001
    return dict(m.ids) == exp and n_names == len(exp), exp


def rebuild(m):
    from mxlpy import Model

    f = Model()
    for n, p in m.get_raw_parameters(as_copy=False).items():
        f.add_parameter(n, p.value)
    for n, v in m.get_raw_variables(as_copy=False).items():
        f.add_variable(n, v.initial_value)
    for n, d in m.get_raw_derived(as_copy=False).items():
        f.add_derived(n, d.fn, args=list(d.args))
    for n, r in m.get_raw_reactions(as_copy=False).items():
        f.add_reaction(n, r.fn, args=list(r.args), stoichiometry=dict(r.stoichiometry))
    for n, r in m.get_raw_readouts(as_copy=False).items():
        f.add_readout(n, r.fn, args=list(r.args))
    for n, s in m.get_raw_surrogates(as_copy=False).items():
        f.add_surrogate(n, mock(s.args, s.outputs, copy.deepcopy(s.stoichiometries)))
    for n, d in m._data.items():  # noqa: SLF001
        f.add_data(n, d)
    return f


def answers(m, ctx, tag, again=False):
    """Query answers of a model: qname -> ('ok', {key: value}) | ('err', exception type name)."""
    out = {}
    state_syms = {}

    def q(name, fn):
        try:
            out[name] = ("ok", fn())
        except Exception as e:  # noqa: BLE001
            out[name] = ("err", type(e).__name__)

    q("get_initial_conditions", lambda: dict(m.get_initial_conditions()))
    q("get_parameter_values", lambda: dict(m.get_parameter_values()))
    q("get_derived_parameter_names", lambda: {"names": tuple(m.get_derived_parameter_names())})
    q("get_args", lambda: dict(m.get_args(include_readouts=True)))
    q("get_right_hand_side", lambda: dict(m.get_right_hand_side()))
    names = m.get_variable_names()
    for v in names:
        state_syms[v] = ctx.real(f"s_{v}")
    T = ctx.real("T")
    q("__call__(S,T)", lambda: dict(zip(names, m(T, [state_syms[v] for v in names]))))
    q("get_fluxes(S,T)", lambda: dict(m.get_fluxes(dict(state_syms), T)))
    if again:
        # asking must not change later answers: the read-only tables first, then the derivatives once more
        for look in (lambda: m.get_stoichiometries(), lambda: [m.get_stoichiometries_of_variable(v) for v in names],
                     lambda: m.get_unused_parameters(), lambda: m.get_raw_reactions(), lambda: m.get_derived_variables()):
            try:
                look()
            except Exception:  # noqa: BLE001,S110
                pass
        q("get_right_hand_side|asked again", lambda: dict(m.get_right_hand_side()))
        q("__call__(S,T)|asked again", lambda: dict(zip(names, m(T, [state_syms[v] for v in names]))))
        q("get_args|asked again", lambda: dict(m.get_args(include_readouts=True)))
    return out


class History(Scenario):
    modules = ["mxlpy.model"]
    float_shim = ["mxlpy.model"]
    isinstance_shim = ["mxlpy.model"]  # a symbolic value counts as a float in `isinstance(v, float)` tests

    def __init__(self, opseq, prequery=True):
        self.opseq = opseq  # list of (label, fn)
        self.prequery = prequery
        self.key = "C03/" + ("q;" if prequery else "") + ";".join(l for l, _ in opseq)

    def run(self, ctx):
        m = base_model(ctx)
        for i, (label, fn) in enumerate(self.opseq):
            if self.prequery:
                try:
                    m.get_args()
                    m.get_right_hand_side()
                except Exception:  # noqa: BLE001
                    pass
            before = snapshot(m)
            try:
                fn(m, ctx, i)
                raised = None
            except Exception as e:  # noqa: BLE001  any exception is a rejection; the property does not fix its type
                raised = e
            if raised is not None and label in MUST_ACCEPT and MUST_ACCEPT[label](self.opseq[:i]):
                ctx.true(f"step {i} {label}: a legitimate edit is accepted", False, info=f"{type(raised).__name__}: {raised}"[:150])
            if raised is not None:
                ctx.true(f"step {i} {label}: a rejected edit changes nothing", same_snapshot(before, snapshot(m)), info=f"{type(raised).__name__}: {raised}"[:150])
            ok, exp = ids_consistent(m)
            ctx.true(f"step {i} {label}: one name space (ids = union of all containers and surrogate outputs)", ok,
                     info=f"ids={dict(m.ids)} expected={exp}"[:300])
            if not ok:
                return
            # a name freed by a removal can be used again by every kind of add
            if raised is None and label.startswith("remove_"):
                freed = label[label.index("(") + 1:-1]
                for kind, add in (
                    ("parameter", lambda mm: mm.add_parameter(freed, 1.0)),
                    ("variable", lambda mm: mm.add_variable(freed, 1.0)),
                    ("derived", lambda mm: mm.add_derived(freed, R.twice, args=["k2"])),
                    ("reaction", lambda mm: mm.add_reaction(freed, R.mass_action_0s, args=["k2"], stoichiometry={"x": 1})),
                    ("readout", lambda mm: mm.add_readout(freed, R.twice, args=["x"])),
                    ("data", lambda mm: mm.add_data(freed, pd.Series({"a": 1.0}))),
                ):
                    mm = copy.deepcopy(m)
                    try:
                        add(mm)
                        okk = True
                    except Exception as e:  # noqa: BLE001
                        okk = False
                        why = f"{type(e).__name__}: {e}"
                    ctx.true(f"step {i} {label}: the freed name is accepted by add_{kind}", okk, info="" if okk else why[:120])
        # final: every query answers exactly as a freshly built model with the same content
        try:
            fresh = rebuild(m)
        except Exception as e:  # noqa: BLE001
            ctx.true(f"the model's content can be rebuilt through the public API ({type(e).__name__}: {e})"[:160], False)
            return
        got = answers(m, ctx, "edited", again=True)
        exp = answers(fresh, ctx, "fresh")
        for qn in got:
            g, e = got[qn], exp[qn.split("|")[0]]
            if e[0] == "err" or g[0] == "err":
                ctx.true(f"{qn}: same outcome as a fresh model", g[0] == e[0] and (g[0] == "ok" or g[1] == e[1]), info=f"edited={g[0]}:{g[1] if g[0] == 'err' else ''} fresh={e[0]}:{e[1] if e[0] == 'err' else ''}")
                continue
            ctx.true(f"{qn}: same keys as a fresh model", set(g[1]) == set(e[1]) and (qn != "__call__(S,T)" or list(g[1]) == list(e[1])), info=f"{list(g[1])} vs {list(e[1])}")
            for k in e[1]:
                if k in g[1]:
                    gv, ev = g[1][k], e[1][k]
                    if isinstance(gv, tuple) or isinstance(ev, tuple):
                        ctx.true(f"{qn}[{k}] as a fresh model", gv == ev, info=f"{gv} vs {ev}")
                    elif hasattr(ev, "index") and not isinstance(ev, SymReal | float | int):
                        continue  # data sets are passed through
                    else:
                        ctx.eq(f"{qn}[{k}] as a fresh model", gv, ev)


def scenarios(tier, seed):
    O = ops()
    clean = [o for o in O if o[0] not in TAINTED]
    scs = []
    for o in O:
        scs.append(History([o], prequery=True))
        scs.append(History([o], prequery=False))
    if tier == "quick":
        for a, b in it.product(clean, repeat=2):
            scs.append(History([a, b]))
    else:
        for a, b in it.product(clean, repeat=2):
            scs.append(History([a, b]))
            scs.append(History([a, b], prequery=False))
        # triples over the operations that change what the cache holds (parameters, derived quantities, reactions, static/dynamic conversion)
        core_labels = {
            "remove_parameter(ku)", "remove_parameter(n)", "add_parameter(pnew)", "update_parameter(k1)", "scale_parameter(k2)",
            "remove_derived(dp)", "remove_derived(d2)", "add_derived(d3 on d2)", "update_derived(d1 args)", "update_derived(dp -> state dependent)",
            "remove_reaction(v1)", "add_reaction(v3)", "update_reaction(v1 stoich)", "make_variable_static(z)", "make_parameter_dynamic(ku,stoich v1)",
            "remove_variable(z)", "add_variable(w)", "add_surrogate(s2)", "remove_surrogate(sur)", "update_surrogate(sur outputs)", "remove_data(dat)",
        }
        core = [o for o in clean if o[0] in core_labels]
        for tpl in it.product(core, repeat=3):
            scs.append(History(list(tpl)))
    return scs
