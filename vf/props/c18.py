"""C18 — control coefficients equal analytic sensitivities; model left untouched (DESIGN.md, C18)."""
from __future__ import annotations

import z3

from symlift.core import SymReal
from vf import evaluator as E
from vf import ratefns as R
from vf.common import Scenario, as_term
from vf.flow import FlowModel, StubSPI
from vf.props.c04 import MODS
from vf.props.c09 import PebbleStub, _Tqdm

LEVEL = "model_checking"
META = {
    "bounds": "power-law networks k*prod x^n with kinetic orders n in {0,1,2,3} (exact: central differences are exact to degree 2, 3+h^2 for cubes), a "
    "Michaelis-Menten network against the exact difference quotient, derived parameters between the scanned parameter and the rate law; "
    "displacement symbolic and the default 1e-4; scaled and unscaled; response coefficients on a steady-state stub SS(parameters, y0) "
    "(uninterpreted), sequential and through the pool stub",
    "stubs": ["scipy.integrate.ode -> steady state as an uninterpreted function of (parameter values, initial state)", "pebble pool -> deep-copy stub, tqdm no-op",
              "pd/np/float module globals of mxlpy.model, simulator, simulation, scan, mca, parallel rebound to proxies"],
    "outside": "accuracy of the real steady-state integration; analytic sensitivities of non-power-law rate laws beyond the exact difference quotient",
    "assumptions_list": ["state values, parameters and displacement non-zero where they are divided by", "real arithmetic"],
}


def power_model(ctx):
    from mxlpy import Model

    m = Model()
    m.add_parameter("k0", ctx.real("p_k0"))
    m.add_parameter("k1", ctx.real("p_k1"))
    m.add_parameter("k2", ctx.real("p_k2"))
    m.add_parameter("k3", ctx.real("p_k3"))
    m.add_variable("x", ctx.real("i_x"))
    m.add_variable("y", ctx.real("i_y"))
    m.add_reaction("v0", R.mass_action_0s, args=["k0"], stoichiometry={"x": 1})
    m.add_reaction("v1", R.mass_action_1s, args=["x", "k1"], stoichiometry={"x": -1, "y": 1})
    m.add_reaction("v2", R.power_xy, args=["x", "y", "k2"], stoichiometry={"y": -1})
    m.add_reaction("v3", R.cube_k, args=["y", "k3"], stoichiometry={"y": -1})
    orders = {("v0", "x"): 0, ("v0", "y"): 0, ("v1", "x"): 1, ("v1", "y"): 0, ("v2", "x"): 2, ("v2", "y"): 1, ("v3", "x"): 0, ("v3", "y"): 3}
    porders = {(f"v{i}", f"k{j}"): int(i == j) for i in range(4) for j in range(4)}
    return m, orders, porders


def derived_par_model(ctx):
    from mxlpy import Model

    m = Model()
    m.add_parameter("kf", ctx.real("p_kf"))
    m.add_parameter("keq", ctx.real("p_keq"))
    m.add_variable("a", ctx.real("i_a"))
    m.add_variable("b", ctx.real("i_b"))
    m.add_derived("kr", R.ratio, args=["kf", "keq"])
    m.add_derived("kr2", R.twice, args=["kr"])
    m.add_reaction("vf", R.mass_action_1s, args=["a", "kf"], stoichiometry={"a": -1, "b": 1})
    m.add_reaction("vr", R.mass_action_1s, args=["b", "kr2"], stoichiometry={"b": -1, "a": 1})
    return m


def mm_model(ctx):
    from mxlpy import Model

    m = Model()
    m.add_parameter("vmax", ctx.real("p_vmax"))
    m.add_parameter("km", ctx.real("p_km"))
    m.add_variable("s", ctx.real("i_s"))
    m.add_reaction("v", R.michaelis_menten_1s, args=["s", "vmax", "km"], stoichiometry={"s": -1})
    return m


def same_terms(a, b):
    if isinstance(a, SymReal) or isinstance(b, SymReal):
        return z3.eq(z3.simplify(as_term(a)), z3.simplify(as_term(b)))
    return a == b


class Elasticity(Scenario):
    modules = ["mxlpy.model", "mxlpy.mca"]
    float_shim = ["mxlpy.model"]

    def __init__(self, which, model, normalized, sym_h, use_default_state):
        self.which, self.model, self.normalized, self.sym_h, self.use_default_state = which, model, normalized, sym_h, use_default_state
        self.key = f"C18/{which}/{model}/{'scaled' if normalized else 'unscaled'}/{'h-symbolic' if sym_h else 'h-default'}/{'initial-state' if use_default_state else 'given-state'}"

    def run(self, ctx):
        from mxlpy import mca

        orders = porders = None
        if self.model == "power":
            m, orders, porders = power_model(ctx)
        elif self.model == "derivedpar":
            m = derived_par_model(ctx)
        else:
            m = mm_model(ctx)
        names = m.get_variable_names()
        state = None if self.use_default_state else {v: ctx.real(f"s_{v}") for v in names}
        T = ctx.real("T")
        h = ctx.real("h") if self.sym_h else 1e-4
        if self.sym_h:
            ctx.assume(h > 0)
            ctx.assume(h < 1)
        pv_before = dict(m.get_parameter_values())
        ic_before = dict(m.get_initial_conditions())
        kw = dict(variables=None if state is None else dict(state), time=T, normalized=self.normalized)
        if self.sym_h:
            kw["displacement"] = h
        fn = mca.variable_elasticities if self.which == "variable" else mca.parameter_elasticities
        with ctx.impl(f"{self.which}_elasticities"):
            df = fn(m, **kw)
        st = state if state is not None else ic_before
        scanned = names if self.which == "variable" else m.get_parameter_names()
        fluxes = E.flux_names(E.Decl(m))
        ctx.true("one column per scanned quantity, one row per flux", set(df.columns) == set(scanned) and set(df.index) == set(fluxes),
                 info=f"{list(df.columns)} / {list(df.index)}")
        if set(df.columns) != set(scanned) or set(df.index) != set(fluxes):
            return

        def flux_at(st_, par_override):
            """oracle: fluxes of a fresh copy of the declarations with one value replaced"""
            import copy

            mm = copy.deepcopy(m)
            for k_, v_ in par_override.items():
                mm.update_parameter(k_, v_)
            env = E.state_env(E.Decl(mm), st_, T)
            return {f: env[f] for f in fluxes}

        base = flux_at(st, {})
        for q in scanned:
            if self.which == "variable":
                old = st[q]
                up, lo = flux_at({**st, q: old * (1 + h)}, {}), flux_at({**st, q: old * (1 - h)}, {})
            else:
                old = pv_before[q]
                up, lo = flux_at(st, {q: old * (1 + h)}), flux_at(st, {q: old * (1 - h)})
            for f in fluxes:
                quot = (up[f] - lo[f]) / (2 * h * old)
                if self.normalized:
                    quot = quot * old / base[f]
                if self.sym_h:
                    ctx.eq(f"elasticity[{f},{q}] = exact central difference quotient", df[q][f], quot)
                else:
                    ctx.true(f"elasticity[{f},{q}] = exact central difference quotient (to 1e-9)", _close(df[q][f], quot))
                known = (orders if self.which == "variable" else porders)
                if known is not None and self.normalized and self.sym_h and (f, q) in known and (f != "v0" or q == "k0"):
                    n = known[(f, q)]
                    expect = n if n <= 2 else n + h * h
                    ctx.eq(f"elasticity[{f},{q}] = kinetic order {n}" + (" (+h^2 for a cube)" if n == 3 else ""), df[q][f], expect)
        # the model is left as it was found
        pv_after = dict(m.get_parameter_values())
        ic_after = dict(m.get_initial_conditions())
        ctx.true("parameter values are the same terms afterwards", list(pv_after) == list(pv_before) and all(same_terms(pv_after[k], pv_before[k]) for k in pv_before),
                 info=str({k: (str(pv_before[k]), str(pv_after.get(k))) for k in pv_before})[:300])
        ctx.true("initial values are the same terms afterwards", list(ic_after) == list(ic_before) and all(same_terms(ic_after[k], ic_before[k]) for k in ic_before))


def _close(a, b):
    if isinstance(a, SymReal) or isinstance(b, SymReal):
        ta, tb = as_term(a), as_term(b)
        d = ta - tb
        return S_bool(z3.And(d <= 1e-9 * (1 + z3.If(tb >= 0, tb, -tb)), -d <= 1e-9 * (1 + z3.If(tb >= 0, tb, -tb))))
    return abs(a - b) <= 1e-9 * (1 + abs(b))


def S_bool(t):
    from symlift.core import SymBool

    return SymBool(t)


class Response(Scenario):
    modules = [*MODS, "mxlpy.scan", "mxlpy.mca", "mxlpy.parallel"]
    float_shim = ["mxlpy.model", "mxlpy.simulator"]
    isinstance_shim = ["mxlpy.simulation"]

    def __init__(self, normalized, parallel, with_variables, sym_h=True, kind="influx", one_param=False, ia_start=False):
        self.normalized, self.parallel, self.with_variables, self.sym_h = normalized, parallel, with_variables, sym_h
        self.kind, self.one_param = kind, one_param
        self.ia_start = ia_start  # the first variable's initial value is declared as an initial assignment (only with supplied start values)
        self.key = (f"C18/response/{kind}/{'scaled' if normalized else 'unscaled'}/{'pool' if parallel else 'seq'}/"
                    f"{'y0-given' if with_variables else 'y0-default'}/{'h-' + str(sym_h) if sym_h else 'h-default'}{'/one-parameter' if one_param else ''}"
                    f"{'/ia-start' if ia_start else ''}")
        self.timeout_ms = 10000

    def run(self, ctx):
        import mxlpy.integrators.int_scipy as isc
        import mxlpy.parallel as mpar

        fm = FlowModel(self.kind)
        saved = (isc.spi, mpar.pebble, mpar.tqdm)
        isc.spi = StubSPI(fm, ctx.symbolic)
        mpar.pebble = PebbleStub(ctx)
        mpar.tqdm = _Tqdm
        try:
            self._run(ctx, fm)
        finally:
            isc.spi, mpar.pebble, mpar.tqdm = saved

    def _run(self, ctx, fm):
        from mxlpy import mca

        sym = ctx.symbolic
        m = fm.build(ctx)
        if self.ia_start:
            from mxlpy.types import InitialAssignment
            from vf import ratefns as R_

            m.update_variable(m.get_variable_names()[0], InitialAssignment(fn=R_.twice, args=[m.get_parameter_names()[-1]]))
        declared_before = {k_: v_.initial_value for k_, v_ in m.get_raw_variables().items()}
        h = 0.25 if self.sym_h == "quarter" else (ctx.real("h") if self.sym_h else 1e-4)
        if self.sym_h is True:
            ctx.assume(h > 0)
            ctx.assume(h < 1)
        pv_before = dict(m.get_parameter_values())
        ic_before = dict(m.get_initial_conditions())
        names = m.get_variable_names()
        y0 = {v: ctx.real(f"u_{v}") for v in names} if self.with_variables else None
        kw = dict(normalized=self.normalized, parallel=self.parallel, variables=y0, disable_tqdm=True)
        if self.one_param:
            kw["to_scan"] = [m.get_parameter_names()[-1]]
        if self.sym_h:
            kw["displacement"] = h
        with ctx.impl("response_coefficients"):
            rc = mca.response_coefficients(m, **kw)
            cv, cf = rc.variables, rc.fluxes
        start = [y0[v] for v in names] if y0 else [ic_before[v] for v in names]

        def ss(p):
            ps = {k: p[k] for k in sorted(p)}
            y = fm.flow(ps, start, 0.0, 100.0, sym)
            if self.kind == "influx":
                return {"x": y[0], "vin": p["kin"], "v": p["k"] * y[0]}
            return {"a": y[0], "b": y[1], "vf": p["kf"] * y[0], "vr": p["kr"] * y[1]}

        base = ss(pv_before)
        var_rows = names
        # fluxes of the two-variable model are products of a perturbed parameter and an uninterpreted steady state (slow, and
        # covered by the one-variable model): only its concentrations are compared
        flux_rows = [r_ for r_ in base if r_ not in names] if self.kind == "influx" else []
        for par in (kw.get("to_scan") or m.get_parameter_names()):
            old = pv_before[par]
            up, lo = ss({**pv_before, par: old * (1 + h)}), ss({**pv_before, par: old * (1 - h)})
            for name in var_rows + flux_rows:
                frame = cv if name in var_rows else cf
                quot = (up[name] - lo[name]) / (2 * h * old)
                if self.normalized:
                    quot = quot * (old / base[name])
                ctx.eq(f"response coefficient of {name} to {par} = sensitivity of the steady state", frame[par][name], quot)
        pv_after = dict(m.get_parameter_values())
        ctx.true("parameter values are the same terms afterwards", all(same_terms(pv_after[k], pv_before[k]) for k in pv_before),
                 info=str({k: (str(pv_before[k]), str(pv_after.get(k))) for k in pv_before})[:300])
        ic_after = dict(m.get_initial_conditions())
        ctx.true("initial values are the same terms afterwards", all(same_terms(ic_after[k], ic_before[k]) for k in ic_before),
                 info=str({k: (str(ic_before[k]), str(ic_after.get(k))) for k in ic_before})[:300])
        declared_after = {k_: v_.initial_value for k_, v_ in m.get_raw_variables().items()}

        def same_declaration(a, b):
            if hasattr(a, "fn") or hasattr(b, "fn"):
                return hasattr(a, "fn") and hasattr(b, "fn") and a.fn is b.fn and list(a.args) == list(b.args)
            return same_terms(a, b)

        ctx.true("initial values are declared as before (an initial assignment stays an initial assignment)",
                 all(same_declaration(declared_after[k_], declared_before[k_]) for k_ in declared_before),
                 info=str({k_: (repr(declared_before[k_])[:40], repr(declared_after[k_])[:40]) for k_ in declared_before})[:300])


class McElasticity(Scenario):
    """mc.variable_elasticities / mc.parameter_elasticities: one block per Monte-Carlo row, computed on that row's values."""

    modules = ["mxlpy.model", "mxlpy.mca", "mxlpy.mc", "mxlpy.scan", "mxlpy.parallel", "mxlpy"]
    float_shim = ["mxlpy.model"]

    def __init__(self, which, nrows=2):
        self.which = which
        self.nrows = nrows
        self.key = f"C18/mc.{which}_elasticities/power/pool/rows{nrows}"

    def run(self, ctx):
        import mxlpy.parallel as mpar

        saved = (mpar.pebble, mpar.tqdm)
        mpar.pebble = PebbleStub(ctx)
        mpar.tqdm = _Tqdm
        try:
            self._run(ctx)
        finally:
            mpar.pebble, mpar.tqdm = saved

    def _run(self, ctx):
        import pandas as pd

        from mxlpy import mc

        m, orders, porders = power_model(ctx)
        h = ctx.real("h")
        ctx.assume(h > 0)
        ctx.assume(h < 1)
        labels = [4, 1][: self.nrows]
        cells = [ctx.real(f"row{r}_k2") for r in range(self.nrows)]
        mc_to_scan = pd.DataFrame({"k2": cells}, index=labels, dtype=object if ctx.symbolic else float)
        state = {v: ctx.real(f"s_{v}") for v in m.get_variable_names()}
        pv_before = dict(m.get_parameter_values())
        fn = mc.variable_elasticities if self.which == "variable" else mc.parameter_elasticities
        kw = dict(mc_to_scan=mc_to_scan, variables=dict(state), displacement=h, normalized=True)
        if self.which == "parameter":
            kw["to_scan"] = ["k1", "k2", "k3"]
        with ctx.impl(f"mc.{self.which}_elasticities"):
            df = fn(m, **kw)
        known = orders if self.which == "variable" else porders
        cols = list(df.columns)
        for r, lab in enumerate(labels):
            for f_ in ("v1", "v2", "v3"):
                with ctx.impl("block lookup"):
                    rowv = df.loc[(lab, f_)]
                for q in cols:
                    n = known[(f_, q)]
                    ctx.eq(f"row {lab}: elasticity[{f_},{q}] = kinetic order {n}", rowv[q], n if n <= 2 else n + h * h)
        pv_after = dict(m.get_parameter_values())
        ctx.true("the caller's parameter values are the same terms afterwards", all(same_terms(pv_after[k_], pv_before[k_]) for k_ in pv_before))


def scenarios(tier, seed):
    scs = [McElasticity("variable"), McElasticity("parameter"), McElasticity("variable", 1), McElasticity("parameter", 1)]
    for which in ("variable", "parameter"):
        for model in ("power", "derivedpar", "mm"):
            for normalized in (True, False):
                for sym_h in (True, False):
                    for default_state in (False, True):
                        if tier == "quick" and not sym_h and (default_state or model != "power"):
                            continue
                        scs.append(Elasticity(which, model, normalized, sym_h, default_state))
    for normalized in (True, False):
        for parallel in (False, True):
            for with_vars in (False, True):
                # the displacement is concrete here (the default 1e-4 and 1/4): products of the uninterpreted steady
                # states with a symbolic displacement made z3 time out
                scs.append(Response(normalized, parallel, with_vars, sym_h=False))
    scs.append(Response(True, False, False, sym_h="quarter"))
    scs.append(Response(False, True, False, sym_h="quarter"))
    # a steady state that depends on where the run starts (conserved total); scans over a single parameter keep the number of
    # steady-state runs (and so of convergence forks) small
    for normalized in (True, False):
        for parallel in (False, True):
            scs.append(Response(normalized, parallel, True, sym_h=False, kind="moiety", one_param=True))
            if tier != "quick":
                scs.append(Response(normalized, parallel, True, sym_h=False, kind="moiety"))
    scs.append(Response(False, True, True, sym_h=False, kind="influx", one_param=True))
    # supplied start values over a variable that is declared through an initial assignment: the declaration must survive
    for parallel in (False, True):
        scs.append(Response(True, parallel, True, sym_h=False, kind="influx", one_param=True, ia_start=True))
    return scs
