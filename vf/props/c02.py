"""C02 — dependency resolution is order-independent; bad graphs are rejected (DESIGN.md, C02).

Unit level: `_sort_dependencies` runs on `Dependency.required` sets whose membership bits are z3
Bools, i.e. the *graph itself* is symbolic: every graph over n components is covered, and since a
permuted graph is a graph, so is every declaration order.
API level: the same small graphs through `Model` with symbolic values against the evaluator.
"""
from __future__ import annotations

import itertools as it
import re

import z3

from symlift import core as S
from symlift.core import SymBool
from vf import evaluator as E
from vf.common import Scenario

LEVEL = "model_checking"
META = {
    "bounds": "unit level: all dependency graphs over n<=4 (quick) / n<=5 (thorough) components, universe = component outputs "
    "(one two-output provider variant) + 2 available names + 2 names nobody provides; "
    "API level: all 2^9 edge sets over 3 components (derived / reaction / initial assignment / surrogate mixes), "
    "each with an optional missing name, values symbolic",
    "stubs": ["Dependency.required is a SymSet (membership bits are z3 Bools) at unit level",
              "pd/np/float module globals of mxlpy.model rebound to proxies at API level"],
    "outside": "graphs with more components than the bound; termination beyond the engine's decision bound",
    "assumptions_list": ["real arithmetic", "graphs with n components in declaration order 0..n-1 cover all declaration orders (a permuted graph is a graph)"],
}


class SymSet:
    """A set over a fixed universe whose membership bits are z3 Bools."""

    def __init__(self, universe, bits):
        self.universe = list(universe)
        self.bits = dict(bits)

    def issubset(self, other):
        out = [z3.Not(self.bits[u]) for u in self.universe if u not in other]
        return SymBool(z3.And(*out) if out else z3.BoolVal(True))

    def difference(self, other):
        # lazy: forks only when iterated (sorted(...) in the missing-dependency message)
        return SymSet([u for u in self.universe if u not in other], {u: self.bits[u] for u in self.universe if u not in other})

    # operator forms of the same two questions (a refactor may write `required <= available` or `required - available`)
    def __le__(self, other):
        return self.issubset(other)

    def __lt__(self, other):
        # proper subset: a subset, and some element of `other` is not a member
        other = set(other)
        lacking = [z3.Not(self.bits[u]) if u in self.bits else z3.BoolVal(True) for u in other]
        return SymBool(z3.And(self.issubset(other).t, z3.Or(*lacking) if lacking else z3.BoolVal(False)))

    def __sub__(self, other):
        return self.difference(other)

    def __and__(self, other):
        return self.intersection(other)

    def intersection(self, other):
        return SymSet([u for u in self.universe if u in other], {u: self.bits[u] for u in self.universe if u in other})

    def isdisjoint(self, other):
        out = [z3.Not(self.bits[u]) for u in self.universe if u in other]
        return SymBool(z3.And(*out) if out else z3.BoolVal(True))

    def __bool__(self):
        return bool(SymBool(z3.Or(*[self.bits[u] for u in self.universe]))) if self.universe else False

    def __len__(self):
        return len(list(iter(self)))

    def __repr__(self):
        return "{<symbolic set>}"

    def __iter__(self):
        return iter([u for u in self.universe if bool(SymBool(self.bits[u]))])

    def __contains__(self, u):
        return bool(SymBool(self.bits[u])) if u in self.bits else False

    def copy(self):
        return SymSet(self.universe, self.bits)


def _closure_cyclic(n, edge):
    reach = [[edge[i][j] for j in range(n)] for i in range(n)]
    for _ in range(n):
        reach = [
            [z3.Or(reach[i][j], *[z3.And(reach[i][m], edge[m][j]) for m in range(n)]) for j in range(n)]
            for i in range(n)
        ]
    return z3.Or(*[reach[i][i] for i in range(n)])


class SortUnit(Scenario):
    validate = False
    max_paths = 3000
    max_decisions = 2000

    def __init__(self, n, multi):
        self.n = n
        self.multi = multi
        self.key = f"C02/unit/n{n}{'-multi' if multi else ''}"

    def run(self, ctx):
        import mxlpy.model as mm

        n = self.n
        names = [f"e{i}" for i in range(n)]
        provided = {nm: {nm} for nm in names}
        if self.multi:
            provided["e0"] = {"e0", "o0"}
        base = ["a0", "a1"] if n <= 2 else ["a0"]
        missing_names = ["m0", "m1"] if n <= 2 else ["m0"]
        universe = [u for nm in names for u in sorted(provided[nm])] + base + missing_names
        bits = {nm: {u: ctx.boolean(f"req_{nm}_{u}") for u in universe} for nm in names}
        elements = [mm.Dependency(name=nm, required=SymSet(universe, bits[nm]), provided=set(provided[nm])) for nm in names]
        available = set(base)
        all_avail = set(base) | {u for nm in names for u in provided[nm]}
        # specification formulas
        miss = {nm: [u for u in universe if u not in all_avail] for nm in names}
        incomplete = z3.Or(*[bits[nm][u] for nm in names for u in miss[nm]])
        edge = [[z3.Or(*[bits[names[i]][u] for u in provided[names[j]]]) for j in range(n)] for i in range(n)]
        cyclic = _closure_cyclic(n, edge)
        try:
            order = mm._sort_dependencies(available=set(available), elements=elements)  # noqa: SLF001
        except mm.MissingDependenciesError as e:
            ctx.true("MissingDependenciesError only if a required name is neither available nor provided", incomplete)
            # format-independent reading of the message: which names of the universe / which components it mentions
            words = set(re.findall(r"[A-Za-z_][A-Za-z_0-9]*", str(e)))
            claims = []
            all_missing = sorted({u for nm in names for u in miss[nm]})
            for u in all_missing:
                claims.append(z3.Or(*[bits[nm][u] for nm in names]) == z3.BoolVal(u in words))
            for nm in names:
                has_missing = z3.Or(*[bits[nm][u] for u in miss[nm]]) if miss[nm] else z3.BoolVal(False)
                # a component with missing names is named; one without is not blamed (it may still be mentioned as a requirement
                # only if it were missing, which a provided name never is)
                claims.append(has_missing == z3.BoolVal(nm in words))
            for u in [x for x in universe if x not in all_missing and x not in names and x not in {o for nm in names for o in provided[nm]}]:
                claims.append(z3.BoolVal(u not in words))
            ctx.true("MissingDependenciesError lists exactly the missing names and the components naming them", z3.And(*claims))
            return
        except mm.CircularDependencyError:
            ctx.true("CircularDependencyError only if complete and cyclic", z3.And(z3.Not(incomplete), cyclic))
            return
        except Exception as e:  # noqa: BLE001
            ctx.true(f"no other exception type ({type(e).__name__})", False)
            return
        ctx.true("order is a permutation of all components", sorted(order) == sorted(names))
        claims = [z3.Not(incomplete), z3.Not(cyclic)]
        have = set(available)
        for nm in order:
            if nm in bits:
                claims += [z3.Not(bits[nm][u]) for u in universe if u not in have]
                have |= provided[nm]
        ctx.true("every component's requirements are available or provided earlier (acyclic, complete)", z3.And(*claims))


# ---------------------------------------------------------------------------------------- API level

def nsum(k, *args):
    r = k
    for a in args:
        r = r + 2 * a
    return r


def nsum2(k, *args):
    r = k
    for a in args:
        r = r + 3 * a
    return r, r * k


CONFIGS = {
    "DDD": ("derived", "derived", "derived"),
    "DRP": ("derived", "reaction", "ia_param"),
    "VDS": ("ia_var", "derived", "surrogate"),
    "RRD": ("reaction", "reaction", "derived"),
    "DRPD": ("derived", "reaction", "ia_param", "derived"),
    "VDSD": ("ia_var", "derived", "surrogate", "derived"),
}


class GraphAPI(Scenario):
    modules = ["mxlpy.model"]
    float_shim = ["mxlpy.model"]
    isinstance_shim = ["mxlpy.model"]  # a symbolic value counts as a float in `isinstance(v, float)` tests

    def __init__(self, cfg, edges, missing_at, order, missing_name="nope"):
        self.missing_name = missing_name  # "nope", or "@surrogate": the surrogate's own name - an id of the model, but not a value
        self.cfg = cfg
        self.edges = edges  # frozenset of (i, j): component i names component j
        self.missing_at = missing_at
        self.order = order
        e = "".join(f"{i}{j}" for i, j in sorted(edges))
        self.key = f"C02/api/{cfg}/e{e or '-'}/m{missing_at if missing_at is not None else '-'}/o{''.join(map(str, order))}{'' if missing_name == 'nope' else '/names-' + missing_name}"

    def missing(self):
        if self.missing_name == "@surrogate":
            kinds = CONFIGS[self.cfg]
            return self.names()[kinds.index("surrogate")]
        return self.missing_name

    def names(self):
        kinds = CONFIGS[self.cfg]
        return [f"{k[0]}{i}" for i, k in enumerate(kinds)]

    def build(self, ctx):
        from mxlpy import Model
        from mxlpy.surrogates.abstract import MockSurrogate
        from mxlpy.types import InitialAssignment

        kinds = CONFIGS[self.cfg]
        names = self.names()
        out_name = {i: (names[i] if kinds[i] != "surrogate" else f"{names[i]}_o") for i in range(len(kinds))}
        m = Model()
        m.add_parameter("k", ctx.real("p_k"))
        m.add_variable("x", ctx.real("i_x"))
        for i in self.order:
            args = (["k", "x"] if kinds[i] in ("ia_param", "ia_var") else ["k"]) + [out_name[j] for (a, j) in sorted(self.edges) if a == i]
            if self.missing_at == i:
                args.append(self.missing())
            kind = kinds[i]
            if kind == "derived":
                m.add_derived(names[i], nsum, args=args)
            elif kind == "reaction":
                m.add_reaction(names[i], nsum, args=args, stoichiometry={"x": -1})
            elif kind == "ia_param":
                m.add_parameter(names[i], InitialAssignment(fn=nsum, args=args))
            elif kind == "ia_var":
                m.add_variable(names[i], InitialAssignment(fn=nsum, args=args))
            elif kind == "surrogate":
                m.add_surrogate(
                    names[i],
                    MockSurrogate(fn=nsum2, args=args, outputs=[f"{names[i]}_o", f"{names[i]}_f"],
                                  stoichiometries={f"{names[i]}_f": {"x": 1}}),
                )
        return m

    def classify(self):
        n = len(CONFIGS[self.cfg])
        adj = {i: {j for (a, j) in self.edges if a == i} for i in range(n)}
        cyc = False
        for i in range(n):
            seen, stack = set(), list(adj[i])
            while stack:
                j = stack.pop()
                if j == i:
                    cyc = True
                if j not in seen:
                    seen.add(j)
                    stack.extend(adj[j])
        return cyc, self.missing_at is not None

    def run(self, ctx):
        import mxlpy.model as mm

        m = self.build(ctx)
        cyc, missing = self.classify()
        names = self.names()
        state = {v: ctx.real(f"s_{v}") for v in m.get_variable_names()}
        T = ctx.real("T")
        try:
            a = m.get_args(dict(state), T)
        except mm.MissingDependenciesError as e:
            ctx.true("MissingDependenciesError only for a missing name", missing)
            words = set(re.findall(r"[A-Za-z_][A-Za-z_0-9]*", str(e)))
            others = [n_ for i_, n_ in enumerate(names) if i_ != self.missing_at and n_ != self.missing()]
            ok = bool(missing) and self.missing() in words and names[self.missing_at] in words and not any(o in words for o in others)
            ctx.true("message lists exactly the missing name under its component", ok, info=str(e))
            return
        except mm.CircularDependencyError:
            ctx.true("CircularDependencyError only for a cyclic complete graph", cyc and not missing)
            return
        except Exception as e:  # noqa: BLE001
            ctx.true(f"rejected with a dependency error, not {type(e).__name__}", False, info=str(e)[:200])
            return
        ctx.true("numbers only for acyclic complete graphs", (not cyc) and (not missing))
        if cyc or missing:
            return
        decl = E.Decl(m)
        env = E.state_env(decl, state, T)
        for n in a.index:
            ctx.eq(f"get_args[{n}]", a[n], env[n])
        with ctx.impl("get_right_hand_side"):
            r = m.get_right_hand_side(dict(state), T)
        dx = E.rhs(decl, state, T, env)
        for v in r.index:
            ctx.eq(f"get_right_hand_side[{v}]", r[v], dx[v])
        with ctx.impl("get_initial_conditions"):
            ic = m.get_initial_conditions()
        ic0 = E.initial_conditions(decl)
        for v in ic0:
            ctx.eq(f"get_initial_conditions[{v}]", ic[v], ic0[v])
        with ctx.impl("__call__"):
            out = m(T, [state[v] for v in m.get_variable_names()])
        for i, v in enumerate(m.get_variable_names()):
            ctx.eq(f"__call__[{v}]", out[i], dx[v])
        # the same graph after its base values were re-declared on the resolved model (one edit at a time)
        for tag, edit in (("variable", lambda: m.update_variable("x", ctx.real("i2_x"))), ("parameter", lambda: m.update_parameter("k", ctx.real("p2_k")))):
            with ctx.impl(f"re-declare the base {tag}"):
                edit()
            decl = E.Decl(m)
            env = E.state_env(decl, state, T)
            with ctx.impl(f"get_args after re-declaring the {tag}"):
                a = m.get_args(dict(state), T)
                ic = m.get_initial_conditions()
            for n in a.index:
                ctx.eq(f"after re-declaring the {tag}: get_args[{n}]", a[n], env[n])
            ic0 = E.initial_conditions(decl)
            for v in ic0:
                ctx.eq(f"after re-declaring the {tag}: get_initial_conditions[{v}]", ic[v], ic0[v])

def scenarios(tier, seed):
    scs = []
    nmax = 4 if tier == "quick" else 5
    for n in range(1, nmax + 1):
        scs.append(SortUnit(n, False))
        if n <= (3 if tier == "quick" else 4):
            scs.append(SortUnit(n, True))
    all_edges = [(i, j) for i in range(3) for j in range(3)]
    cfgs = ["DRP", "VDS"] if tier == "quick" else list(CONFIGS)
    orders = list(it.permutations(range(3)))
    for cfg in cfgs:
        for r in range(len(all_edges) + 1):
            for es in it.combinations(all_edges, r):
                es = frozenset(es)
                idx = sum(1 << (3 * i + j) for i, j in es)
                order = orders[idx % 6] if tier == "quick" else None
                if tier == "quick":
                    scs.append(GraphAPI(cfg, es, None, order))
                    if idx % 8 == 0:
                        scs.append(GraphAPI(cfg, es, idx % 3, orders[(idx + 1) % 6]))
                else:
                    cyc = GraphAPI(cfg, es, None, orders[0]).classify()[0]
                    for o in (orders if not cyc else [orders[idx % 6]]):
                        scs.append(GraphAPI(cfg, es, None, o))
                    scs.append(GraphAPI(cfg, es, idx % 3, orders[(idx + 1) % 6]))
    # a component that names the surrogate itself (an id of the model, but not a value: only its outputs are), in every declaration order
    for o in orders:
        for at in (0, 1, 2):
            scs.append(GraphAPI("VDS", frozenset(), at, o, missing_name="@surrogate"))
        scs.append(GraphAPI("VDS", frozenset({(1, 2)}), 2, o, missing_name="@surrogate"))
    if tier != "quick":
        # four components: every DAG over a fixed topological numbering x every declaration order, plus one back edge
        pot4 = [(i, j) for i in range(4) for j in range(i)]
        orders4 = list(it.permutations(range(4)))
        for cfg in ("DRPD", "VDSD"):
            for r in range(len(pot4) + 1):
                for es in it.combinations(pot4, r):
                    es = frozenset(es)
                    idx = sum(1 << (4 * i + j) for i, j in es)
                    for o in (orders4 if cfg == "DRPD" else orders4[idx % 3::3]):
                        scs.append(GraphAPI(cfg, es, None, o))
                    back = (0, 3)
                    scs.append(GraphAPI(cfg, es | {back}, None, orders4[idx % 24]))
                    scs.append(GraphAPI(cfg, es, idx % 4, orders4[(idx + 5) % 24]))
    return scs
