"""C13 — initial assignments resolve once at t=0; derived parameters are state-free (DESIGN.md, C13)."""
from __future__ import annotations

import itertools as it

from vf import evaluator as E
from vf import models as M
from vf import ratefns as R
from vf.common import Scenario

LEVEL = "model_checking"
META = {
    "bounds": "hand-written assignment chains (depth<=3, through derived quantities, rates and each other, on variables and parameters) "
    "+ every DAG over 3 derived quantities x leaf kind in {parameter, variable, assignment-defined parameter, assignment-defined variable, time} per node "
    "x declaration orders (reversed in quick, all 6 in thorough); second unrelated state and time symbolic; one parameter update after the cache exists",
    "stubs": ["pd/np/float module globals of mxlpy.model rebound to proxies"],
    "outside": "graphs over more than 3 derived quantities, surrogates inside assignment chains",
    "assumptions_list": ["real arithmetic", "classification oracle = transitive closure over declarations (harness-side)"],
}
IA = M.IA


def ia_shapes():
    S = []
    S.append(dict(
        name="ia_param_var",
        params=[("k", None), ("pia", (IA, R.add, ["d", "v"]))],
        vars=[("x", None), ("y", (IA, R.twice, ["pia"]))],
        derived=[
            ("d", R.mul, ["x", "k"]),
            ("dp", R.mul, ["pia", "k"]),
            ("dp2", R.add, ["dp", "k"]),
            ("dt", R.ramp, ["k", "time"]),
        ],
        reactions=[
            ("v", R.mass_action_1s, ["x", "k"], {"x": -1, "y": 1}),
            ("w", R.mass_action_2s, ["y", "dt", "dp2"], {"y": -1}),
        ],
    ))
    S.append(dict(
        name="ia_chain",
        params=[("k", None), ("p1", (IA, R.twice, ["k"])), ("p2", (IA, R.add, ["p1", "x0"]))],
        vars=[("x0", None), ("x1", (IA, R.mul, ["p2", "x0"]))],
        derived=[("dpar", R.add, ["p1", "p2"]), ("dvar", R.add, ["dpar", "x1"])],
        reactions=[("v", R.mass_action_2s, ["x0", "dvar", "dpar"], {"x0": -1, "x1": 1})],
    ))
    S.append(dict(
        name="ia_coef",
        params=[("k", None), ("n", (IA, R.twice, ["x"]))],
        vars=[("x", None), ("y", (IA, R.add, ["x", "k"]))],
        reactions=[
            ("v", R.mass_action_1s, ["x", "k"], {"x": -1, "y": ("d", R.mul, ["k", "y"])}),
            ("w", R.mass_action_1s, ["y", "k"], {"y": -1, "x": "n"}),
        ],
    ))
    S.append(dict(
        name="ia_via_rate",
        params=[("k", None), ("q", None)],
        vars=[("x", None), ("y", (IA, R.mul, ["v", "q"])), ("z", (IA, R.add, ["y", "dz"]))],
        derived=[("dz", R.mul, ["x", "q"]), ("dpp", R.mul, ["k", "q"])],
        reactions=[
            ("v", R.mass_action_1s, ["x", "k"], {"x": -1, "y": 1}),
            ("w", R.mass_action_2s, ["y", "z", "dpp"], {"y": -1, "z": -0.5}),
        ],
    ))
    S.append(dict(
        name="ia_via_rate_only",
        params=[("k", None), ("q", None)],
        vars=[("x", None), ("y", (IA, R.twice, ["v"])), ("z", (IA, R.twice, ["dxq"]))],
        derived=[("dxq", R.mul, ["x", "q"])],
        reactions=[
            ("v", R.mass_action_1s, ["x", "k"], {"x": -1, "y": 1}),
            ("w", R.mass_action_1s, ["y", "q"], {"y": -1, "z": 1}),
        ],
    ))
    S.append(dict(
        name="ia_param_via_rate_only",
        params=[("k", None), ("pv", (IA, R.twice, ["v"]))],
        vars=[("x", None)],
        derived=[("dpv", R.twice, ["pv"])],
        reactions=[
            ("v", R.mass_action_1s, ["x", "k"], {"x": -1}),
            ("w", R.mass_action_1s, ["x", "dpv"], {"x": 1}),
        ],
    ))
    S.append(dict(
        name="ia_time",
        params=[("k", None), ("pt", (IA, R.ramp, ["k", "time"]))],
        vars=[("x", (IA, R.add, ["k", "time"]))],
        derived=[("dpt", R.add, ["pt", "k"])],
        reactions=[("v", R.mass_action_2s, ["x", "dpt", "k"], {"x": -1})],
    ))
    S.append(dict(
        name="ia_var_on_var",
        params=[("k", None)],
        vars=[("a", (IA, R.twice, ["b"])), ("b", (IA, R.add, ["c", "k"])), ("c", None)],
        derived=[("dabc", R.sum3, ["a", "b", "c"])],
        reactions=[("v", R.mass_action_1s, ["dabc", "k"], {"a": -1, "b": 1, "c": ("d", R.constant, ["a"])})],
    ))
    return S


LEAVES = {"P": "k", "V": "x", "A": "pia", "W": "yia", "T": "time"}


def dag_spec(edges, leaves, order):
    """3 derived quantities; d_i names d_j for (i,j) in edges (j<i: DAG), plus one leaf each."""
    derived = []
    for i in range(3):
        args = [LEAVES[leaves[i]]] + [f"d{j}" for (a, j) in sorted(edges) if a == i]
        derived.append((f"d{i}", C13.nsum, args))
    derived = [derived[i] for i in order]
    return dict(
        name=f"dag/e{''.join(f'{i}{j}' for i, j in sorted(edges)) or '-'}/l{''.join(leaves)}/o{''.join(map(str, order))}",
        params=[("k", None), ("pia", (IA, R.add, ["x", "k"]))],
        vars=[("x", None), ("yia", (IA, R.mul, ["x", "k"]))],
        derived=derived,
        reactions=[("v", R.mass_action_2s, ["x", "d2", "k"], {"x": -1, "yia": 1})],
    )


def _nsum(first, *rest):
    r = 3 * first
    for a in rest:
        r = r + 2 * a
    return r


class C13(Scenario):
    modules = ["mxlpy.model", "mxlpy.simulator"]
    float_shim = ["mxlpy.model", "mxlpy.simulator"]
    isinstance_shim = ["mxlpy.model"]
    nsum = staticmethod(_nsum)

    def __init__(self, spec):
        self.spec = spec
        self.key = f"C13/{spec['name']}"

    def check_state(self, ctx, m, tag, state, T):
        decl = E.Decl(m)
        names = list(decl.variables)
        e0 = E.init_env(decl)
        with ctx.impl(f"{tag}get_initial_conditions"):
            ic = m.get_initial_conditions()
        ctx.true(f"{tag}initial conditions names", set(ic) == set(names))
        for v in names:
            ctx.eq(f"{tag}get_initial_conditions[{v}]", ic[v], e0[v])
        plike = E.parameter_like(decl)
        with ctx.impl(f"{tag}classification"):
            dpn = m.get_derived_parameter_names()
            dvn = m.get_derived_variable_names()
        ctx.true(f"{tag}derived parameters = derived depending only on parameters (transitively)", set(dpn) == set(plike) and len(dpn) == len(plike), info=f"{dpn} vs {plike}")
        ctx.true(f"{tag}derived variables = the rest", set(dvn) == {d for d in decl.derived if d not in plike} and len(dvn) == len(set(dvn)), info=str(dvn))
        # default state
        with ctx.impl(f"{tag}get_args()"):
            a0 = m.get_args()
        for n in a0.index:
            ctx.eq(f"{tag}get_args()[{n}]", a0[n], e0[n])
        # default state, but another time: everything that is not parameter-like follows the time supplied
        env_t = E.state_env(decl, {v: e0[v] for v in names}, T)
        with ctx.impl(f"{tag}get_args(time=T)"):
            at = m.get_args(time=T)
            ft = m.get_fluxes(time=T)
            rt = m.get_right_hand_side(time=T)
        for n in at.index:
            ctx.eq(f"{tag}get_args(time=T)[{n}]", at[n], env_t[n])
        for n in ft.index:
            ctx.eq(f"{tag}get_fluxes(time=T)[{n}]", ft[n], env_t[n])
        dxt = E.rhs(decl, {v: e0[v] for v in names}, T, env_t)
        for v in names:
            ctx.eq(f"{tag}get_right_hand_side(time=T)[{v}]", rt[v], dxt[v])
        # unrelated state and time
        env = E.state_env(decl, state, T)
        with ctx.impl(f"{tag}get_args(S2,T2)"):
            a = m.get_args(dict(state), T)
        for n in a.index:
            ctx.eq(f"{tag}get_args(S2,T2)[{n}]", a[n], env[n])
        for n in list(plike) + [p for p, d in decl.parameters.items() if hasattr(d.value, "fn")]:
            ctx.eq(f"{tag}state-free: {n} keeps its t=0 value", a[n], e0[n])
        dx = E.rhs(decl, state, T, env)
        with ctx.impl(f"{tag}__call__"):
            out = m(T, [state[v] for v in names])
        for i, v in enumerate(names):
            ctx.eq(f"{tag}__call__(S2,T2)[{v}]", out[i], dx[v])
        with ctx.impl(f"{tag}get_right_hand_side"):
            r = m.get_right_hand_side(dict(state), T)
        for v in names:
            ctx.eq(f"{tag}get_right_hand_side(S2,T2)[{v}]", r[v], dx[v])
        return e0

    def run(self, ctx):
        from mxlpy import Simulator

        m = M.build(self.spec, ctx)
        names = m.get_variable_names()
        state = {v: ctx.real(f"s_{v}") for v in names}
        T = ctx.real("T")
        e0 = self.check_state(ctx, m, "", state, T)
        with ctx.impl("Simulator"):
            sim = Simulator(m)
        for v in names:
            ctx.eq(f"Simulator.y0[{v}]", sim.y0[v], e0[v])
        # an override on one simulator (before its first run) is that simulator's business only
        with ctx.impl("Simulator.update_variable"):
            sim.update_variable(names[0], ctx.real("ov_" + names[0]))
        ctx.eq("the overriding simulator starts from the override", sim.y0[names[0]], ctx.real("ov_" + names[0]))
        with ctx.impl("defaults after an override on a simulator"):
            ic_m = m.get_initial_conditions()
            sim2 = Simulator(m)
        for v in names:
            ctx.eq(f"after a simulator override: model initial condition [{v}]", ic_m[v], e0[v])
            ctx.eq(f"after a simulator override: a new Simulator starts from the declared values [{v}]", sim2.y0[v], e0[v])
        # history: a parameter is changed after the cache exists -> assignments are resolved again
        plain_p = [pn for pn, pd_ in E.Decl(m).parameters.items() if not hasattr(pd_.value, "fn")]
        # one edit, then a look: a later invalidating edit must not get the chance to repair what an earlier one left stale
        with ctx.impl("Simulator (before the update)"):
            sim_early = Simulator(m)
        with ctx.impl("update_parameter (first, through the simulator that already exists)"):
            sim_early.update_parameter(plain_p[-1], ctx.real(f"p2_{plain_p[-1]}"))
        e1 = self.check_state(ctx, m, "after one update: ", state, T)
        # nothing was simulated or overridden on that simulator: it starts from the values the assignments resolve to now
        for v in names:
            ctx.eq(f"after Simulator.update_parameter: that simulator starts from the re-resolved value [{v}]", sim_early.y0[v], e1[v])
        with ctx.impl("update_parameter"):
            for pn in plain_p[:-1]:
                m.update_parameter(pn, ctx.real(f"p2_{pn}"))
        if len(plain_p) > 1:
            e1 = self.check_state(ctx, m, "after update: ", state, T)
        with ctx.impl("Simulator after update"):
            sim = Simulator(m)
        for v in names:
            ctx.eq(f"after update: Simulator.y0[{v}]", sim.y0[v], e1[v])
        # and an initial value
        plain_vars = [v for v, d in E.Decl(m).variables.items() if not hasattr(d.initial_value, "fn")]
        if plain_vars:
            with ctx.impl("update_variable"):
                m.update_variable(plain_vars[0], ctx.real("i2_" + plain_vars[0]))
            self.check_state(ctx, m, "after update_variable: ", state, T)


def scenarios(tier, seed):
    scs = []
    # surrogate models: a derived quantity fed only by surrogate outputs (and parameters) is state-dependent, never a derived parameter
    sur = [s_ for s_ in M.base_shapes() if s_["name"] in ("surrogate2", "surrogate_time", "surrogate_qss")]
    for s in ia_shapes() + sur:
        for o in (M.all_orders(s) if tier != "quick" else [s, M.permuted(s, "derived", -1), M.permuted(s, "vars", -1), M.permuted(s, "params", -1)]):
            scs.append(C13(o))
    seen = set()
    scs = [s for s in scs if not (s.key in seen or seen.add(s.key))]
    pot = [(1, 0), (2, 0), (2, 1)]
    orders = list(it.permutations(range(3)))
    leaf_kinds = "PVAWT"
    n = 0
    for r in range(len(pot) + 1):
        for es in it.combinations(pot, r):
            for leaves in it.product(leaf_kinds, repeat=3):
                n += 1
                if tier == "quick":
                    # all edge sets x all leaf assignments, one (rotating) non-trivial order
                    if n % 3 != 0:
                        continue
                    scs.append(C13(dag_spec(frozenset(es), leaves, orders[n % 6])))
                else:
                    for o in orders:
                        scs.append(C13(dag_spec(frozenset(es), leaves, o)))
    return scs
