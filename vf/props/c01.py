"""C01 — derivatives = stoichiometry x rates; all entry points agree (DESIGN.md, C01)."""
from __future__ import annotations

import pandas as pd

from vf import evaluator as E
from vf import models as M
from vf.common import Scenario

LEVEL = "model_checking"
META = {
    "bounds": "thorough adds the full product of a model grammar (4 rate laws x 5 coefficient kinds x derived chains of depth 0-3 x untouched variable x surrogate x declaration order = 640 models); models: <=3 parameters, <=4 variables, derived chains to depth 3, <=3 reactions, <=1 surrogate with 2 outputs; "
    "time-course forms with 2 rows; every declaration order of derived/reactions/variables/parameters (thorough) "
    "or one non-identity order per kind (quick)",
    "stubs": ["pd/np module globals of mxlpy.model rebound to dtype-relaxing proxies"],
    "outside": "pandas data sets with non-scalar entries, torch/keras surrogates, float rounding",
    "assumptions_list": [
        "real arithmetic (no rounding)",
        "denominators of rate laws are non-zero (recorded per path)",
        "numpy/pandas object-dtype containers behave like float containers (validated per path against the unshimmed code)",
    ],
}


def extra_shapes():
    """Shapes used by C01 only: coefficients computed from the time and from a named data set."""
    import pandas as _pd

    from vf import ratefns as R

    return [
        dict(name="time_coef", params=[("k1", None)], vars=[("x", None), ("y", None)],
             reactions=[("v1", R.mass_action_1s, ["x", "k1"], {"x": -1, "y": ("d", R.ramp, ["k1", "time"])})]),
        dict(name="data_coef", params=[("k1", None)], vars=[("x", None), ("y", None)],
             reactions=[("v1", R.mass_action_1s, ["x", "k1"], {"x": -1, "y": ("d", R.first_of, ["light"])})],
             data=[("light", _pd.Series({"a": 1.5, "b": 2.0}))]),
    ]


class C01(Scenario):
    modules = ["mxlpy.model"]
    float_shim = ["mxlpy.model"]
    isinstance_shim = ["mxlpy.model"]  # a symbolic value counts as a float in `isinstance(v, float)` tests

    def __init__(self, spec):
        self.spec = spec
        self.key = f"C01/{spec['name']}"

    def run(self, ctx):
        m = M.build(self.spec, ctx)
        decl = E.Decl(m)
        names = list(decl.variables)
        state = {v: ctx.real(f"s_{v}") for v in names}
        T = ctx.real("T")
        env = E.state_env(decl, state, T)
        dx = E.rhs(decl, state, T, env)
        fluxn = E.flux_names(decl)

        # positional call (integrator form)
        with ctx.impl("__call__"):
            out = m(T, [state[v] for v in names])
        ctx.true("__call__ length", len(out) == len(names))
        for i, v in enumerate(names):
            ctx.eq(f"__call__[{v}]", out[i], dx[v])

        # named right-hand side
        with ctx.impl("get_right_hand_side"):
            r = m.get_right_hand_side(dict(state), T)
        ctx.true("get_right_hand_side names", set(r.index) == set(names))
        for v in names:
            ctx.eq(f"get_right_hand_side[{v}]", r[v], dx[v])

        # fluxes
        with ctx.impl("get_fluxes"):
            fl = m.get_fluxes(dict(state), T)
        ctx.true("get_fluxes names", set(fl.index) == set(fluxn) and len(fl.index) == len(fluxn), info=f"{list(fl.index)} vs {fluxn}")
        for f in fluxn:
            ctx.eq(f"get_fluxes[{f}]", fl[f], env[f])

        # full argument table
        with ctx.impl("get_args"):
            a = m.get_args(dict(state), T)
        expected = set(decl.parameters) | set(names) | set(decl.derived) | set(decl.reactions) | set(decl.out_of) | {"time"}
        ctx.true("get_args names", set(a.index) == expected, info=f"{sorted(a.index)} vs {sorted(expected)}")
        for n in sorted(expected):
            if n in a.index:
                ctx.eq(f"get_args[{n}]", a[n], env[n])

        # readouts are functions of the resolved values
        if decl.readouts:
            with ctx.impl("get_args(include_readouts=True)"):
                ar = m.get_args(dict(state), T, include_readouts=True)
            for ro, r_ in decl.readouts.items():
                ctx.eq(f"readout[{ro}]", ar[ro], r_.fn(*(env[a_] for a_ in r_.args)))

        # stoichiometries x fluxes = rhs
        with ctx.impl("get_stoichiometries"):
            for v in names:
                if any(v in r_.stoichiometry for r_ in decl.reactions.values()) or any(
                    v in st for s in decl.surrogates.values() for st in s.stoichiometries.values()
                ):
                    n_v = m.get_stoichiometries_of_variable(v, dict(state), T)
                    tot = 0.0
                    for rn, c in n_v.items():
                        tot = tot + c * env[rn]
                    ctx.eq(f"stoich_of_variable·fluxes[{v}]", tot, dx[v])

        # default state = initial conditions at t=0
        with ctx.impl("defaults"):
            r0 = m.get_right_hand_side()
        ic = E.initial_conditions(decl)
        dx0 = E.rhs(decl, ic, 0.0)
        for v in names:
            ctx.eq(f"get_right_hand_side()[{v}]", r0[v], dx0[v])

        # the dictionaries handed out belong to the caller: editing them (the usual way to build a start state or a
        # parameter set) must not change what the model answers by default
        with ctx.impl("defaults after the caller edited the returned dictionaries"):
            handed_ic = m.get_initial_conditions()
            handed_pv = m.get_parameter_values()
            for v in list(handed_ic):
                handed_ic[v] = ctx.real(f"tamper_{v}")
            for n_ in list(handed_pv):
                handed_pv[n_] = ctx.real(f"tamper_{n_}")
            r0b = m.get_right_hand_side()
        for v in names:
            ctx.eq(f"get_right_hand_side() after editing the returned dictionaries [{v}]", r0b[v], dx0[v])

        # time-course forms: a table may carry the same time label twice (concatenated runs): one answer per row
        frame_dup = pd.DataFrame({v: [state[v], ctx.real(f"s2_{v}")] for v in names}, index=[T, T], dtype=object if ctx.symbolic else float)
        envd = E.state_env(decl, {v: ctx.real(f"s2_{v}") for v in names}, T)
        with ctx.impl("get_fluxes_time_course (repeated time label)"):
            fdup = m.get_fluxes_time_course(frame_dup)
        ctx.true("get_fluxes_time_course: one row per input row, also for a repeated time label", len(fdup) == 2, info=str(len(fdup)))
        if len(fdup) == 2:
            for f in fluxn:
                ctx.eq(f"get_fluxes_time_course[repeated label, row 0, {f}]", fdup[f].iloc[0], env[f])
                ctx.eq(f"get_fluxes_time_course[repeated label, row 1, {f}]", fdup[f].iloc[1], envd[f])

        # time-course forms: 2 rows
        state2 = {v: ctx.real(f"s2_{v}") for v in names}
        T2 = ctx.real("T2")
        ctx.assume(T < T2)
        env2 = E.state_env(decl, state2, T2)
        dx2 = E.rhs(decl, state2, T2, env2)
        frame = pd.DataFrame({v: [state[v], state2[v]] for v in names}, index=[T, T2], dtype=object if ctx.symbolic else float)
        with ctx.impl("get_args_time_course"):
            atc = m.get_args_time_course(frame)
        for n in sorted(expected - {"time"}):
            if n in atc.columns:
                ctx.eq(f"get_args_time_course[0,{n}]", atc[n].iloc[0], env[n])
                ctx.eq(f"get_args_time_course[1,{n}]", atc[n].iloc[1], env2[n])
        ctx.true("get_args_time_course columns", set(atc.columns) == expected - {"time"})
        with ctx.impl("get_fluxes_time_course"):
            ftc = m.get_fluxes_time_course(frame)
        ctx.true("get_fluxes_time_course columns", set(ftc.columns) == set(fluxn))
        for f in fluxn:
            ctx.eq(f"get_fluxes_time_course[0,{f}]", ftc[f].iloc[0], env[f])
            ctx.eq(f"get_fluxes_time_course[1,{f}]", ftc[f].iloc[1], env2[f])
        with ctx.impl("get_right_hand_side_time_course"):
            rtc = m.get_right_hand_side_time_course(atc)
        ctx.true("get_right_hand_side_time_course columns", set(rtc.columns) == set(names))
        for v in names:
            ctx.eq(f"get_right_hand_side_time_course[0,{v}]", rtc[v].iloc[0], dx[v])
            ctx.eq(f"get_right_hand_side_time_course[1,{v}]", rtc[v].iloc[1], dx2[v])

        # the same questions after the values were changed through the public API
        # (the answers must follow the values the named arguments have *now*)
        plain = [n for n, p_ in decl.parameters.items() if not hasattr(p_.value, "fn")]
        if plain:
            # one edit, then a look (a later invalidating edit must not repair what an earlier one left stale)
            with ctx.impl("update_parameter (last declared)"):
                m.update_parameter(plain[-1], ctx.real(f"p1_{plain[-1]}"))
            dx1 = E.rhs(E.Decl(m), state, T)
            with ctx.impl("__call__ after one update"):
                out = m(T, [state[v] for v in names])
            for i, v in enumerate(names):
                ctx.eq(f"after one update: __call__[{v}]", out[i], dx1[v])
            with ctx.impl("update_parameter"):
                for i, n in enumerate(plain):
                    if i % 2 == 0:
                        m.update_parameter(n, ctx.real(f"p2_{n}"))
                    else:
                        m.scale_parameter(n, ctx.real(f"f2_{n}"))
            decl = E.Decl(m)
            env3 = E.state_env(decl, state, T)
            dx3 = E.rhs(decl, state, T, env3)
            with ctx.impl("__call__ after update"):
                out = m(T, [state[v] for v in names])
            for i, v in enumerate(names):
                ctx.eq(f"after update: __call__[{v}]", out[i], dx3[v])
            with ctx.impl("get_right_hand_side after update"):
                r = m.get_right_hand_side(dict(state), T)
            for v in names:
                ctx.eq(f"after update: get_right_hand_side[{v}]", r[v], dx3[v])
            with ctx.impl("get_fluxes after update"):
                fl = m.get_fluxes(dict(state), T)
            for f in fluxn:
                ctx.eq(f"after update: get_fluxes[{f}]", fl[f], env3[f])


def scenarios(tier, seed):
    scs = [C01(s) for s in M.shapes(tier)] + [C01(s) for s in extra_shapes()]
    if tier != "quick":
        scs += [C01(s) for s in M.grammar_shapes()]
    return scs
