"""C06 — Python-to-symbolic translation is sound: equal everywhere, or refused (DESIGN.md, C06)."""
from __future__ import annotations

import inspect
import itertools as it

import sympy

from vf import sym2z3
from vf.common import Scenario

LEVEL = "translation_validation"
META = {
    "bounds": "programs: every function of mxlpy.fns with positional parameters, plus ~80 probe programs (local/tuple assignments, reassignment, "
    "if/elif/else with returns or assignments in either branch, code after an if, conditional expressions, < <= > >= == != and chained comparisons, "
    "abs/min/max, calls into helper functions with swapped/expression arguments, module constants, math.* and numpy calls); "
    "renamings: none, identity, fresh names, every permutation of the function's own parameter names, partially overlapping names",
    "stubs": ["math/np module globals of the program module rebound to UF-backed proxies (same uninterpreted functions on both sides)"],
    "outside": "arguments outside [-1024, 1024] for the generated programs (float folding of constants by sympy is a rounding matter); functions whose equivalence needs transcendental identities; loops, comprehensions, closures, modulo / floor division",
    "assumptions_list": ["real arithmetic", "denominators non-zero / arguments inside the function's domain (recorded per path)"],
}


def renamings(params):
    n = len(params)
    out = [("none", None), ("identity", list(params)), ("fresh", [f"m{i}" for i in range(n)])]
    for p in it.permutations(params):
        if list(p) != list(params):
            out.append(("perm" + "".join(map(str, (params.index(q) for q in p))), list(p)))
    if n >= 2:
        out.append(("overlap", ["zz"] + list(params[: n - 1])))  # (x, y) -> (zz, x)
    return out


class Prog(Scenario):
    modules = ["vf.c06_programs", "mxlpy.fns"]
    max_paths = 400

    def __init__(self, fn, rname, names, group="probe"):
        self.fn = fn
        self.rname = rname
        self.names = names
        self.key = f"C06/{group}/{fn.__name__}/{rname}"

    def run(self, ctx):
        from mxlpy.meta.source_tools import fn_to_sympy

        params = list(inspect.signature(self.fn).parameters)
        names = self.names if self.names is not None else params
        # the translator inspects the function's module: it must see the real math / numpy there
        import math as _m

        import numpy as _n

        mod = inspect.getmodule(self.fn)
        lifted_np, lifted_math = mod.__dict__.get("np"), mod.__dict__.get("math")
        if lifted_np is not None:
            mod.__dict__["np"] = _n
        if lifted_math is not None:
            mod.__dict__["math"] = _m
        try:
            expr = fn_to_sympy(self.fn, origin="probe", model_args=None if self.names is None else [sympy.Symbol(n) for n in names])
        except Exception as e:  # noqa: BLE001  a visible failure is always acceptable
            ctx.note(f"refused: raised {type(e).__name__}")
            ctx.true("refused (raised)", True)
            return
        finally:
            if lifted_np is not None:
                mod.__dict__["np"] = lifted_np
            if lifted_math is not None:
                mod.__dict__["math"] = lifted_math
        if expr is None:
            ctx.note("refused: None")
            ctx.true("refused (no expression)", True)
            return
        vals = [ctx.real(f"a{i}") for i in range(len(params))]
        if self.key.startswith("C06/gen/"):
            # sympy folds constant sub-expressions in floats (x / 1.5 becomes 0.666...*x): a 1e-16 relative
            # difference that only shows through cancellation at huge magnitudes. Rounding is outside the claim,
            # so the generated programs are compared on a bounded box.
            for v in vals:
                ctx.assume(v >= -1024)
                ctx.assume(v <= 1024)
        env = dict(zip(names, vals))
        try:
            py = self.fn(*vals)
        except (ZeroDivisionError, ValueError):
            return  # outside the function's domain
        try:
            sy = sym2z3.ev(expr, env)
        except sym2z3.Undefined:
            ctx.true("the expression has a value wherever the function is defined", False, info=str(expr))
            return
        except sym2z3.Untranslatable as e:
            ctx.note(f"harness cannot read the expression: {e}")
            ctx.true(f"expression readable by the harness ({e})", False, info=str(expr))
            return
        except (ZeroDivisionError, ValueError):
            ctx.true("the expression is defined wherever the function is defined", False, info=str(expr))
            return
        ctx.eq("value of the translated expression = value of the function", sy, py, info=str(expr)[:200])


def scenarios(tier, seed):
    import mxlpy.fns as F
    from vf import c06_programs as P

    scs = []
    for fn in P.PROGRAMS:
        params = list(inspect.signature(fn).parameters)
        rn = renamings(params)
        if tier == "quick" and len(params) > 3:
            rn = rn[:5]
        for rname, names in rn:
            scs.append(Prog(fn, rname, names))
    for name, fn in sorted(vars(F).items()):
        if not inspect.isfunction(fn) or fn.__module__ != F.__name__ or name.startswith("_"):
            continue
        sig = inspect.signature(fn)
        if any(p.kind not in (p.POSITIONAL_OR_KEYWORD,) for p in sig.parameters.values()):
            continue
        params = list(sig.parameters)
        rn = renamings(params)
        rn = rn[:3] + (rn[3:5] if tier == "quick" else rn[3:9])
        for rname, names in rn:
            scs.append(Prog(fn, rname, names, group="fns"))
    if tier != "quick":
        import atexit
        import shutil
        import tempfile

        from vf import c06_gen

        tmp = tempfile.mkdtemp(prefix="c06gen_")
        atexit.register(shutil.rmtree, tmp, ignore_errors=True)
        for fn in c06_gen.load(tmp, 3000):
            for rname, names in (("none", None), ("perm10", ["y", "x"]), ("overlap", ["zz", "x"])):
                scs.append(Prog(fn, rname, names, group="gen"))
    return scs
