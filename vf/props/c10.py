"""C10 — result views are consistent functions of states and segment parameters (DESIGN.md, C10)."""
from __future__ import annotations

import itertools as it

import numpy as np
import pandas as pd

from vf import evaluator as E
from vf import models as M
from vf import ratefns as R
from vf.common import Scenario

LEVEL = "model_checking"
META = {
    "bounds": "results with 2 or 3 segments (2+1, 2+2+1 rows) built from symbolic frames, one parameter changed between segments and again "
    "after the result exists; 3 model shapes (derived + readout + named/computed coefficients, surrogate); every ordered pair (quick) / "
    "triple (thorough) of reads from a catalogue of 14 views incl. all three normalisation shapes, producers/consumers scaled or not",
    "stubs": ["pd/np/float/isinstance module globals of mxlpy.model and mxlpy.simulation rebound to proxies"],
    "outside": "producers/consumers for coefficients whose sign depends on the state; which fluxes are listed when a coefficient's sign differs between segments (only the scaling of what is listed is checked there); more than 3 segments",
    "assumptions_list": ["real arithmetic", "normalisers non-zero (recorded as division assumptions)"],
}


def specs():
    S = []
    S.append(dict(
        name="views_a",
        params=[("k1", None), ("k2", None), ("n", None)],
        vars=[("x", None), ("y", None)],
        derived=[("dv", R.add, ["x", "y"]), ("dp", R.mul, ["k1", "k2"])],
        reactions=[
            ("v1", R.mass_action_1s, ["x", "k1"], {"x": -1, "y": 2}),
            ("v2", R.mass_action_2s, ["y", "dv", "k2"], {"y": -1.5}),
            ("v3", R.mass_action_1s, ["dp", "k1"], {"x": 1, "y": "n"}),
        ],
        readouts=[("ro", R.mul, ["x", "v1"])],
    ))
    S.append(dict(
        name="views_dyn",
        params=[("k1", None), ("k2", None)],
        vars=[("x", None), ("y", None)],
        derived=[("dp", R.add, ["k1", "k2"])],
        reactions=[
            ("v1", R.mass_action_1s, ["x", "k1"], {"x": -1, "y": ("d", R.mul, ["k2", "x"])}),
            ("v2", R.mass_action_1s, ["y", "k2"], {"y": ("d", R.neg, ["dp"]), "x": 0.5}),
        ],
    ))
    S.append(dict(
        name="views_sur",
        params=[("k1", None), ("k2", None)],
        vars=[("x", None), ("y", None)],
        derived=[("ds", R.add, ["so", "k1"])],
        reactions=[("v1", R.mass_action_1s, ["ds", "k2"], {"y": -1})],
        surrogates=[("sur", "mock", R.two_outputs, ["x", "k1"], ["sf", "so"], {"sf": {"x": -1, "y": 1.5}})],
        readouts=[("ro", R.add, ["so", "y"])],
    ))
    return S


READS = [
    "variables", "fluxes", "rhs", "args_all", "producers", "consumers_scaled", "producers_scaled", "consumers",
    "fluxes_norm_scalar", "variables_norm_segments_split", "raw_variables_norm_segments", "fluxes_norm_rows", "rhs_norm_rows_split", "new_y0", "combined", "raw_variables_only",
]


class Views(Scenario):
    modules = ["mxlpy.model", "mxlpy.simulation"]
    float_shim = ["mxlpy.model"]
    isinstance_shim = ["mxlpy.simulation"]

    def __init__(self, spec, layout, reads, late_change=True):
        self.spec = spec
        self.layout = layout
        self.reads = tuple(reads)
        self.late = late_change
        self.key = f"C10/{spec['name']}/{'+'.join(map(str, layout))}/{'-'.join(reads)}{'' if late_change else '/nolate'}"

    def run(self, ctx):
        from mxlpy.simulation import Simulation

        spec = self.spec
        m = M.build(spec, ctx)
        names = m.get_variable_names()
        pnames = [n for n, ia in spec["params"] if ia is None]
        base_p = {n: ctx.real(f"p_{n}") for n in pnames}
        segs = []
        t_prev = None
        row = 0
        for k, nrows in enumerate(self.layout):
            pk = dict(base_p)
            if k > 0:
                pk["k1"] = ctx.real(f"seg{k}_k1")
                if any("signflip" in r for r in self.reads) and "n" in pk:
                    pk["n"] = ctx.real(f"seg{k}_n")  # the named coefficient itself differs between segments
            times, states = [], []
            for r_i in range(nrows):
                t = ctx.real(f"t{row}")
                if t_prev is not None:
                    # strictly increasing inside a segment; a label may repeat across a segment
                    # boundary (e.g. two steady-state runs both labelled with the same time)
                    ctx.assume(t_prev < t if r_i > 0 else t_prev <= t)
                t_prev = t
                times.append(t)
                states.append({v: ctx.real(f"s{row}_{v}") for v in names})
                row += 1
            segs.append((pk, times, states))
        dtype = object if ctx.symbolic else float
        frames = [pd.DataFrame({v: [s[v] for s in st] for v in names}, index=ti, dtype=dtype) for _, ti, st in segs]
        sim = Simulation(model=m, raw_variables=frames, raw_parameters=[dict(pk) for pk, _, _ in segs])
        if self.late:
            m.update_parameter("k1", ctx.real("late_k1"))
            m.update_parameter("k2", ctx.real("late_k2"))
        # oracle rows
        orows = []
        for k, (pk, times, states) in enumerate(segs):
            om = M.build(spec, ctx, vals=pk)
            decl = E.Decl(om)
            for t, s in zip(times, states):
                env = E.state_env(decl, s, t)
                for ro, r_ in decl.readouts.items():
                    env[ro] = r_.fn(*(env[a] for a in r_.args))
                dx = E.rhs(decl, s, t, env)
                coef = {}
                for rn, rx in decl.reactions.items():
                    for cpd, f in rx.stoichiometry.items():
                        coef[(cpd, rn)] = E.coefficient(f, env)
                for sg in decl.surrogates.values():
                    for rn, st in sg.stoichiometries.items():
                        for cpd, f in st.items():
                            coef[(cpd, rn)] = E.coefficient(f, env)
                orows.append(dict(seg=k, t=t, env=env, dx=dx, coef=coef))
        decl = E.Decl(m)
        plike = E.parameter_like(decl)
        sets = {
            "variables": names + [d for d in decl.derived if d not in plike]
            + [o for s in decl.surrogates.values() for o in s.outputs if o not in s.stoichiometries] + list(decl.readouts),
            "fluxes": E.flux_names(decl),
        }
        sets["args_all"] = names + list(decl.parameters) + list(decl.derived) + list(decl.reactions) + list(decl.out_of) + list(decl.readouts)
        total_rows = len(orows)
        for ri, read in enumerate(self.reads):
            self.do_read(ctx, sim, read, f"read{ri}:{read}", orows, sets, names, total_rows)
        if self.late:
            # the parameter values the model was given after the result existed are still in force after reading views
            with ctx.impl("parameter values after reading"):
                pv = m.get_parameter_values()
            ctx.eq("reading views leaves the model's later parameter value in force [k1]", pv["k1"], ctx.real("late_k1"))
            ctx.eq("reading views leaves the model's later parameter value in force [k2]", pv["k2"], ctx.real("late_k2"))

    # -- one view ------------------------------------------------------------------------
    def compare(self, ctx, tag, df, orows, cols, value, divisor=None):
        if isinstance(df, list):
            ctx.true(f"{tag}: one frame per segment", len(df) == len(self.layout))
            if len(df) != len(self.layout):
                return
            ctx.true(f"{tag}: rows per segment", [len(f) for f in df] == list(self.layout), info=str([len(f) for f in df]))
            if [len(f) for f in df] != list(self.layout):
                return
            df = pd.concat(df, axis=0) if len(df) else df
        ctx.true(f"{tag}: row count", len(df) == len(orows), info=f"{len(df)} vs {len(orows)}")
        if len(df) != len(orows):
            return
        ctx.true(f"{tag}: columns", set(df.columns) == set(cols), info=f"{sorted(df.columns)} vs {sorted(cols)}")
        for i, o in enumerate(orows):
            ctx.eq(f"{tag}: time label[{i}]", df.index[i], o["t"])
            for c in cols:
                if c in df.columns:
                    exp = value(o, c)
                    if divisor is not None:
                        exp = exp / divisor(i, o)
                    ctx.eq(f"{tag}: [{i},{c}]", df[c].iloc[i], exp)

    def do_read(self, ctx, sim, read, tag, orows, sets, names, total_rows):
        env = lambda o, c: o["env"][c]  # noqa: E731
        var0 = names[1] if len(names) > 1 else names[0]
        with ctx.impl(tag):
            if read == "variables":
                self.compare(ctx, tag, sim.variables, orows, sets["variables"], env)
            elif read == "fluxes":
                self.compare(ctx, tag, sim.fluxes, orows, sets["fluxes"], env)
            elif read == "rhs":
                self.compare(ctx, tag, sim.get_right_hand_side(), orows, names, lambda o, c: o["dx"][c])
            elif read == "args_all":
                df = sim.get_args(include_variables=True, include_parameters=True, include_derived_parameters=True,
                                  include_derived_variables=True, include_reactions=True, include_surrogate_variables=True,
                                  include_surrogate_fluxes=True, include_readouts=True)
                self.compare(ctx, tag, df, orows, sets["args_all"], env)
            elif read in ("producers_scaled_signflip", "consumers_scaled_signflip"):
                # a coefficient whose sign differs between segments: which fluxes count as producers there is left open,
                # but whatever is reported "scaled" is the flux times that row's coefficient (minus it for consumers)
                prod = read.startswith("producers")
                fn = sim.get_producers if prod else sim.get_consumers
                df = fn(var0, scaled=True)
                flipped = False
                c0 = orows[0]["coef"]
                for o in orows[1:]:
                    for (cpd, rn), c in o["coef"].items():
                        if cpd == var0 and bool((c > 0) != (c0[(cpd, rn)] > 0)):
                            flipped = True
                ctx.assume(flipped)
                if len(df) == len(orows):
                    for i, o in enumerate(orows):
                        for c in df.columns:
                            cell = df[c].iloc[i]
                            if (var0, c) not in o["coef"] or (isinstance(cell, float) and cell != cell):
                                continue
                            k = o["coef"][(var0, c)]
                            ctx.eq(f"{tag}: [{i},{c}] = flux x coefficient of its segment", cell, o["env"][c] * (k if prod else -k))
            elif read in ("producers", "consumers", "producers_scaled", "consumers_scaled"):
                prod = read.startswith("producers")
                scaled = read.endswith("scaled")
                fn = sim.get_producers if prod else sim.get_consumers
                df = fn(var0, scaled=scaled)
                # the sign of each coefficient (forks on symbolic coefficients); taken at the first row
                c0 = orows[0]["coef"]
                sel = []
                for (cpd, rn), c in c0.items():
                    if cpd != var0:
                        continue
                    # only coefficients that do not depend on the state are in scope (see META.outside)
                    if bool(c > 0) if prod else bool(c < 0):
                        sel.append(rn)
                for o in orows[1:]:
                    for (cpd, rn), c in o["coef"].items():
                        if cpd == var0:
                            ctx.assume((c > 0) == (c0[(cpd, rn)] > 0))
                            ctx.assume((c < 0) == (c0[(cpd, rn)] < 0))

                def val(o, c):
                    v = o["env"][c]
                    if scaled:
                        v = v * (o["coef"][(var0, c)] if prod else -o["coef"][(var0, c)])
                    return v

                self.compare(ctx, tag, df, orows, sel, val)
            elif read == "fluxes_norm_scalar":
                nrm = ctx.real("norm_scalar")
                self.compare(ctx, tag, sim.get_fluxes(normalise=nrm), orows, sets["fluxes"], env, divisor=lambda i, o: nrm)
            elif read == "variables_norm_segments_split":
                nrm = [ctx.real(f"norm_seg{k}") for k in range(len(self.layout))]
                dfs = sim.get_variables(normalise=nrm, concatenated=False)
                self.compare(ctx, tag, dfs, orows, sets["variables"], env, divisor=lambda i, o: nrm[o["seg"]])
            elif read == "raw_variables_norm_segments":
                nrm = [ctx.real(f"norm_seg{k}") for k in range(len(self.layout))]
                df = sim.get_variables(include_derived_variables=False, include_readouts=False, include_surrogate_variables=False, normalise=nrm)
                self.compare(ctx, tag, df, orows, names, env, divisor=lambda i, o: nrm[o["seg"]])
            elif read == "fluxes_norm_rows":
                nrm = [ctx.real(f"norm_row{i}") for i in range(total_rows)]
                arr = np.array(nrm, dtype=object if ctx.symbolic else float)
                self.compare(ctx, tag, sim.get_fluxes(normalise=arr), orows, sets["fluxes"], env, divisor=lambda i, o: nrm[i])
            elif read == "rhs_norm_rows_split":
                nrm = [ctx.real(f"norm_row{i}") for i in range(total_rows)]
                arr = np.array(nrm, dtype=object if ctx.symbolic else float)
                dfs = sim.get_right_hand_side(normalise=arr, concatenated=False)
                self.compare(ctx, tag, dfs, orows, names, lambda o, c: o["dx"][c], divisor=lambda i, o: nrm[i])
            elif read == "new_y0":
                y0 = sim.get_new_y0()
                ctx.true(f"{tag}: names", list(y0) == names)
                for v in names:
                    ctx.eq(f"{tag}: [{v}]", y0[v], orows[-1]["env"][v])
            elif read == "combined":
                self.compare(ctx, tag, sim.get_combined(), orows, sets["variables"] + sets["fluxes"], env)
            elif read == "raw_variables_only":
                df = sim.get_variables(include_derived_variables=False, include_readouts=False, include_surrogate_variables=False)
                self.compare(ctx, tag, df, orows, names, env)
            else:
                raise ValueError(read)


def scenarios(tier, seed):
    scs = []
    sp = specs()
    layouts = [(2, 1)] if tier == "quick" else [(2, 1), (2, 2, 1)]
    for spec in sp:
        for layout in layouts:
            reads_ok = [r for r in READS if not (spec["name"] == "views_dyn" and ("producers" in r or "consumers" in r))]
            if tier == "quick":
                combos = list(it.permutations(reads_ok, 2)) if spec["name"] == "views_a" else [(a, b) for a, b in zip(reads_ok, reads_ok[1:] + reads_ok[:1])]
                combos += [(r,) for r in reads_ok]
            else:
                combos = list(it.permutations(reads_ok, 2))
                if spec["name"] == "views_a" and layout == (2, 1):
                    combos += list(it.permutations(reads_ok[:9], 3))
            for c in combos:
                scs.append(Views(spec, layout, c))
    scs.append(Views(sp[0], (2, 1), ("fluxes", "rhs"), late_change=False))
    # a parameter-dependent coefficient whose sign differs between segments, scaled views
    scs.append(Views(sp[0], (2, 1), ("producers_scaled_signflip",)))
    scs.append(Views(sp[0], (1, 2), ("consumers_scaled_signflip", "fluxes")))
    # minimal scenarios for state-dependent coefficients in producers/consumers (sign/scale taken at the initial state)
    scs.append(Views(sp[1], (2, 1), ("producers_scaled",)))
    scs.append(Views(sp[1], (2, 1), ("consumers",)))
    return scs
