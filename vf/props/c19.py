"""C19 — result caching is transparent and survives interruption (DESIGN.md, C19).

Fault model: the process dies (a BaseException raised by the harness, with all user-space buffers of
open files discarded) before any executed line of mxlpy/parallel.py, or in the middle of a result-file
write after an arbitrary byte prefix has reached the file system; renames are atomic and durable.
The crash point and the byte offset are solver variables; each comparison of the running event index
with the crash variable forks through the engine, so exploration is exhaustive within the bounds.
"""
from __future__ import annotations

import io
import pickle
import shutil
import sys
import tempfile
from pathlib import Path, PosixPath

import numpy as np
import pandas as pd

from vf.common import Scenario
from vf.flow import FlowModel, StubSPI
from vf.props.c09 import PebbleStub, _Tqdm

LEVEL = "model_checking"
META = {
    "bounds": "parallelise with a cache over 1-3 keys (ints, strings, floats, dotted names) with small picklable results (every byte offset of every result file), sequential and "
    "through the pool stub; scan.time_course with a cache (byte offsets {0, 1, half, len-1} of the larger result files); one fault per run: a crash "
    "before any executed line of mxlpy/parallel.py, or inside any result-file write; then an undisturbed rerun and a third run",
    "stubs": ["sys.settrace line hook on mxlpy/parallel.py raises the crash", "pickle.dump in mxlpy.parallel writes a solver-chosen prefix, flushes it, and crashes",
              "Path in mxlpy.parallel opens files through a wrapper whose unflushed buffer is discarded at the crash (a killed process cannot flush)",
              "pebble pool -> deep-copy stub, tqdm no-op", "scipy.integrate.solve_ivp -> closed-form solution (concrete values)"],
    "outside": "keys whose str() are equal or contain path separators, real OS-level kill timing inside a single write syscall, power loss (non-durable renames)",
    "assumptions_list": ["rename/replace is atomic and durable", "bytes handed to the OS before the crash stay in the file", "results are concrete (pickle is C-level)"],
}


class Crash(BaseException):
    pass


STATE = {"dead": False}


class _BufferedFile:
    """A file object with a user-space buffer that is lost when the process dies."""

    def __init__(self, real):
        self.real = real
        self.buf = bytearray()

    def write(self, b):
        self.buf += bytes(b)
        return len(b)

    def flush(self):
        if not STATE["dead"]:
            self.real.write(bytes(self.buf))
            self.real.flush()
            self.buf.clear()

    def close(self):
        self.flush()
        self.real.close()

    def __enter__(self):
        return self

    def __exit__(self, *a):
        self.close()
        return False

    def read(self, *a):
        return self.real.read(*a)

    def readline(self, *a):
        return self.real.readline(*a)

    def readinto(self, b):
        return self.real.readinto(b)


class StubPath(PosixPath):
    def open(self, mode="r", *a, **kw):  # noqa: A003
        f = PosixPath.open(self, mode, *a, **kw)
        if "w" in mode and "b" in mode:
            return _BufferedFile(f)
        return f


class PickleStub:
    """pickle module seen by mxlpy.parallel: dump may be cut at a chosen byte offset."""

    def __init__(self, hook):
        self.hook = hook
        self.n_dumps = 0

    def dump(self, data, fp, *a, **kw):
        b = pickle.dumps(data)
        idx = self.n_dumps
        self.n_dumps += 1
        cut = self.hook(idx, len(b))
        if cut is None:
            fp.write(b)
            return
        fp.write(b[:cut])
        fp.flush()
        STATE["dead"] = True
        raise Crash(f"during write {idx} at byte {cut}/{len(b)}")

    def load(self, fp, *a, **kw):
        return pickle.load(fp, *a, **kw)

    def __getattr__(self, k):
        return getattr(pickle, k)


CALLS = {"n": 0}


def work(v):
    CALLS["n"] += 1
    return ("result", v * 2 + 0.5, [v, str(v)])


def same(a, b):
    if type(a) is not type(b):
        return False
    if isinstance(a, (list, tuple)):
        return len(a) == len(b) and all(same(x, y) for x, y in zip(a, b))
    if isinstance(a, dict):
        return list(a) == list(b) and all(same(a[k], b[k]) for k in a)
    if isinstance(a, (pd.DataFrame, pd.Series)):
        return a.shape == b.shape and list(a.index) == list(b.index) and np.allclose(a.to_numpy(dtype=float), b.to_numpy(dtype=float), equal_nan=True)
    if hasattr(a, "raw_variables"):
        return same(list(a.raw_variables), list(b.raw_variables)) and same(list(a.raw_parameters), list(b.raw_parameters))
    return a == b


class CacheRun(Scenario):
    modules = ["mxlpy.parallel"]
    validate = False
    max_paths = 20000
    max_decisions = 5000

    def __init__(self, keys, parallel, fault, what="map"):
        self.keys = tuple(keys)
        self.parallel = parallel
        self.fault = fault  # "line" | "write"
        self.what = what
        self.key = f"C19/{what}/{'+'.join(map(str, keys))}/{'pool' if parallel else 'seq'}/fault-{fault}"

    # -- the job --------------------------------------------------------------------------
    def job(self, cache):
        import mxlpy.parallel as mpar

        if self.what == "map":
            return mpar.parallelise(work, [(k, i + 1.0) for i, k in enumerate(self.keys)], cache=cache, parallel=self.parallel, disable_tqdm=True)
        from mxlpy import scan

        fm = FlowModel("decay")

        class C:
            symbolic = False

            def real(self, n):
                return {"p_k": 0.5, "i_x": 2.0}[n]

        m = fm.build(C())
        CALLS["n"] += 0
        to_scan = pd.DataFrame({"k": [0.5 + i for i in range(len(self.keys))]}, index=list(self.keys))
        def counting_worker(*a, **kw):
            CALLS["n"] += 1
            return scan._time_course_worker(*a, **kw)  # noqa: SLF001

        res = scan.time_course(m, to_scan=to_scan, time_points=np.array([0.0, 1.0, 2.0]), parallel=self.parallel, cache=cache, worker=counting_worker)
        return [(k, v) for k, v in res.raw_results.items()]

    def run(self, ctx):
        import mxlpy.integrators.int_scipy as isc
        import mxlpy.parallel as mpar
        import mxlpy.scan as mscan

        tmp = Path(tempfile.mkdtemp(prefix="c19_"))
        saved = (mpar.pebble, mpar.tqdm, mpar.pickle, mpar.Path, isc.spi)
        worker_saved = mscan._time_course_worker  # noqa: SLF001
        STATE["dead"] = False
        try:
            mpar.pebble = PebbleStub(ctx)
            mpar.tqdm = _Tqdm
            isc.spi = StubSPI(FlowModel("decay"), False)
            self._run(ctx, mpar, tmp)
        finally:
            sys.settrace(None)
            mpar.pebble, mpar.tqdm, mpar.pickle, mpar.Path, isc.spi = saved
            mscan._time_course_worker = worker_saved  # noqa: SLF001
            STATE["dead"] = False
            shutil.rmtree(tmp, ignore_errors=True)

    def _run(self, ctx, mpar, tmp):
        from mxlpy.parallel import Cache

        mpar.pebble.explore = False  # scheduling is explored in the faulted run only
        baseline = self.job(None)
        n_keys = len(self.keys)
        crash_line = ctx.real("crash_line")  # index of the executed line before which the process dies (-1: never)
        cut_dump = ctx.real("cut_dump")  # index of the result-file write that is cut (-1: none)
        cut_at = ctx.real("cut_at")  # number of bytes of that write that reach the file system
        if self.fault == "line":
            ctx.assume(cut_dump == -1)
            ctx.assume(cut_at == 0)
        else:
            ctx.assume(crash_line == -1)
        counter = {"n": 0}

        def line_hook():
            i = counter["n"]
            counter["n"] += 1
            if bool(crash_line == i):
                STATE["dead"] = True
                raise Crash(f"before executed line #{i}")

        def tracer(frame, event, arg):
            if frame.f_code.co_filename.endswith("mxlpy/parallel.py"):
                def local(frame, event, arg):
                    if event == "line" and not STATE["dead"]:
                        line_hook()
                    return local
                return local
            return None

        def write_hook(idx, n):
            if self.fault != "write" or not bool(cut_dump == idx):
                return None
            offsets = range(n + 1) if n <= 96 else (0, 1, n // 2, n - 1)
            for j in offsets:
                if bool(cut_at == j):
                    return j if j < n else None
            ctx.assume(False)  # offsets outside the enumerated set are not part of this run
            return None

        mpar.pickle = PickleStub(write_hook)
        mpar.Path = StubPath
        cache = Cache(tmp_dir=StubPath(tmp) / "cache")
        crashed = None
        CALLS["n"] = 0
        if self.fault == "line":
            sys.settrace(tracer)
        mpar.pebble.explore = True
        try:
            r1 = self.job(cache)
        except Crash as e:
            crashed = str(e)
        finally:
            sys.settrace(None)
            mpar.pebble.explore = False
        if crashed is None:
            if self.fault == "line":
                ctx.assume(crash_line == -1)  # a crash index beyond the last executed line = no crash
            else:
                ctx.assume(cut_dump == -1)
                ctx.assume(cut_at == 0)
            ctx.true("with a cache: the same results as without", same(r1, baseline), info=f"{r1!r} vs {baseline!r}"[:300])
            ctx.true("with a cache: every result computed exactly once", CALLS["n"] == n_keys, info=str(CALLS["n"]))
        # the process is gone; a new one reruns the same call, undisturbed
        STATE["dead"] = False
        mpar.pickle = PickleStub(lambda idx, n: None)
        CALLS["n"] = 0
        try:
            r2 = self.job(cache)
            err = None
        except Exception as e:  # noqa: BLE001
            r2, err = None, f"{type(e).__name__}: {e}"
        tag = f"after an interruption ({'no crash' if crashed is None else 'crash ' + self.fault})"
        ctx.true(f"{tag}: the rerun completes", err is None, info=f"{crashed}: {err}"[:300])
        if err is not None:
            return
        ctx.true(f"{tag}: the rerun returns the uncached results for every key, in input order", same(r2, baseline), info=f"{crashed}: {r2!r}"[:300])
        if crashed is None:
            ctx.true("a repeated run recomputes nothing", CALLS["n"] == 0, info=str(CALLS["n"]))
        CALLS["n"] = 0
        try:
            r3 = self.job(cache)
            ok3 = same(r3, baseline)
        except Exception as e:  # noqa: BLE001
            ok3 = False
        ctx.true(f"{tag}: a third run returns the same results from disk without recomputing", ok3 and CALLS["n"] == 0, info=str(CALLS["n"]))


class CacheReuse(Scenario):
    """One cache directory used by two different runs that share their keys (the row labels 0, 1, ... of two scan tables)."""

    modules = ["mxlpy.parallel"]
    validate = False

    def __init__(self, parallel):
        self.parallel = parallel
        self.key = f"C19/map/reused-cache-other-values/{'pool' if parallel else 'seq'}"

    def run(self, ctx):
        import mxlpy.parallel as mpar
        from mxlpy.parallel import Cache

        tmp = Path(tempfile.mkdtemp(prefix="c19_"))
        saved = (mpar.pebble, mpar.tqdm)
        try:
            stub = PebbleStub(ctx)
            stub.explore = False
            mpar.pebble = stub
            mpar.tqdm = _Tqdm
            cache = Cache(tmp_dir=tmp / "cache")
            first = [(0, 1.0), (1, 2.0)]
            second = [(0, 10.0), (1, 20.0)]
            mpar.parallelise(work, first, cache=cache, parallel=self.parallel, disable_tqdm=True)
            with_cache = mpar.parallelise(work, second, cache=cache, parallel=self.parallel, disable_tqdm=True)
            without = mpar.parallelise(work, second, cache=None, parallel=self.parallel, disable_tqdm=True)
            ctx.true("a cache directory that holds another run's results under the same keys: the same results as without a cache",
                     same(with_cache, without), info=f"{with_cache!r} vs {without!r}"[:300])
        finally:
            mpar.pebble, mpar.tqdm = saved
            shutil.rmtree(tmp, ignore_errors=True)


def scenarios(tier, seed):
    scs = []
    # float keys and dotted names: distinct keys whose text only differs after the last dot
    keysets = [(0,), (0, 1), ("a", "b"), (1.25, 1.5), ("v1.1", "v1.2")] if tier == "quick" else [
        (0,), (0, 1), ("a", "b"), (1.25, 1.5), ("v1.1", "v1.2"), (2, 0, 1), ("x", 7), (1.0, 1.25, 1.5)]
    for ks in keysets:
        for par in (False, True):
            for fault in ("line", "write"):
                scs.append(CacheRun(ks, par, fault))
    for par in (False, True):
        for fault in ("line", "write"):
            scs.append(CacheRun((5, 2), par, fault, what="scan"))
    # minimal scenario of an open finding: results are filed under the key alone
    scs.append(CacheReuse(False))
    scs.append(CacheReuse(True))
    return scs
