"""C15 — steady-state results are steady states; absence is reported as failure (reduced scope, DESIGN.md C15).

The real `Scipy.integrate_to_steady_state` loop, `Simulator.simulate_to_steady_state`, `get_result` and
`scan._steady_state_worker` run over an `ode` stub that returns the *exact* flow of a stable linear
system, y(t_n) = y* + (y0 - y*) e^n with a symbolic contraction factor 0 < e <= 1/2 per 100 time units
("bounded relaxation time"), or a drift flow y0 + c n (no steady state).
"""
from __future__ import annotations

import numpy as np

from vf.common import Scenario
from vf.flow import FlowModel, StubSPI
from vf.props.c04 import MODS

LEVEL = "model_checking"
META = {
    "bounds": "1 and 2 independent pools with influx and first-order efflux; contraction factor e symbolic in (0, 1/2] (1-D) or in {1/2, 1/4} (2-D); "
    "convergence forced within K<=5 iterations by assuming |y0-y*| < tolerance*2^(K-1); drift flows explored through the real max_steps=1000 loop; "
    "absolute and relative norm; default and user-supplied y0; with and without an earlier simulation; "
    "ode.integrate returning a fresh array or (as scipy 1.18 does) the same array object every call",
    "stubs": ["scipy.integrate.ode -> exact closed-form flow of a stable linear system / a drift flow; returns either a fresh or an aliased array",
              "scipy.integrate.solve_ivp -> uninterpreted flow (only for the earlier simulation)",
              "pebble/tqdm not involved (worker called directly)"],
    "outside": "the relative norm for two pools with a symbolic contraction factor (concrete factors only); that LSODA's output is within tolerance of the true flow; non-linear networks; detection of a unique stable steady state; systems relaxing slower than e=1/2 per 100 time units",
    "assumptions_list": ["0 < e <= 1/2", "k > 0", "tolerance > 0", "|y0 - y*| < tolerance * 2^(K-1) (bounds the loop; stated)",
                         "relative norm: y0 > 0, y* > 0, |y0 - y*| < y*/2 and |y0 - y*| < tolerance * y* * 2^(K-2) (bounds the loop; stated)",
                         "relative norm, no steady state: drift c >= tolerance (y0 + 1000 c) with the default tolerance 1e-6"],
}


class OdeStub(StubSPI):
    def __init__(self, fm, symbolic, *, ystar, e=None, drift=None, alias=True):
        super().__init__(fm, symbolic)
        self.ystar = ystar
        self.e = e
        self.drift = drift
        self.alias = alias
        self.accelerating = False
        self.integrations = 0

    def ode(self, f, jac=None):
        return _O(self)

    def solve_ivp(self, fun, t_span, y0, method="RK45", t_eval=None, **kw):
        if self.symbolic:
            return super().solve_ivp(fun, t_span, y0, method=method, t_eval=t_eval, **kw)
        # concrete replay: exact solution of the independent pools dx/dt = kin - k x
        import math

        from vf.flow import _Res, param_values_of

        p = param_values_of(fun)
        pools = ["x", "y"][: len(y0)]
        r = _Res()
        r.success = True
        r.t = list(t_eval)
        r.y = []
        for v0, pool in zip(y0, pools):
            k_, kin_ = float(p[f"k_{pool}"]), float(p[f"kin_{pool}"])
            ss = kin_ / k_
            r.y.append([ss + (float(v0) - ss) * math.exp(-k_ * (float(t) - float(t_span[0]))) for t in t_eval])
        return r


class _O:
    def __init__(self, owner):
        self.o = owner
        self.n = 0

    def set_integrator(self, name, **kw):
        return self

    def set_initial_value(self, y, t=0.0):
        self.y0 = list(y)
        self.o.start = list(y)  # where the search really started (the declared start, or the state an earlier simulation reached)
        self.buf = np.array(list(y), dtype=object if self.o.symbolic else float)
        return self

    def integrate(self, t):
        self.n += 1
        self.o.integrations += 1
        if self.o.drift is not None:
            # constant drift, or an accelerating one (the change grows from interval to interval)
            k_ = self.n * self.n if self.o.accelerating else self.n
            y = [v + c * k_ for v, c in zip(self.y0, self.o.drift)]
        else:
            f = 1
            for _ in range(self.n):
                f = f * self.o.e
            y = [s + (v - s) * f for v, s in zip(self.y0, self.o.ystar)]
        if self.o.alias:
            self.buf[:] = y
            return self.buf
        return np.array(y, dtype=object if self.o.symbolic else float)


def absval(x):
    return x if bool(x >= 0) else -x


class Steady(Scenario):
    modules = [*MODS, "mxlpy.scan"]
    float_shim = ["mxlpy.model", "mxlpy.simulator"]
    isinstance_shim = ["mxlpy.simulation"]
    max_paths = 40  # the contraction scenarios need K+1 paths; more means a convergence test that forks on every iteration
    max_decisions = 5000
    max_seconds = 240
    timeout_ms = 15000

    def __init__(self, dim, rel, user_y0, earlier, alias, K, e_conc=None, drift=False, via="simulator", zero_start=False, accelerating=False):
        self.accelerating = accelerating
        self.dim, self.rel, self.user_y0, self.earlier, self.alias, self.K = dim, rel, user_y0, earlier, alias, K
        self.e_conc, self.drift, self.via = e_conc, drift, via
        self.zero_start = zero_start  # relative norm with an exactly empty pool at the start
        self.key = (f"C15/{'drift' if drift else 'contract'}/d{dim}/{'rel' if rel else 'abs'}/{'y0user' if user_y0 else 'y0default'}/"
                    f"{'after-sim' if earlier else 'fresh'}/{'aliased' if alias else 'fresh-array'}/K{K}"
                    f"{'' if e_conc is None else '/e' + str(e_conc)}/{via}{'/zero-start' if zero_start else ''}{'/accelerating' if accelerating else ''}")

    def build(self, ctx):
        from mxlpy import Model
        from vf import ratefns as R

        m = Model()
        pools = ["x", "y"][: self.dim]
        for p in pools:
            # the influx is defined through the analytic steady state y* = kin / k (keeps the queries polynomial)
            m.add_parameter(f"kin_{p}", ctx.real(f"p_k_{p}") * ctx.real(f"ystar_{p}"))
            m.add_parameter(f"k_{p}", ctx.real(f"p_k_{p}"))
            m.add_variable(p, ctx.real(f"i_{p}"))
            m.add_reaction(f"vin_{p}", R.mass_action_0s, args=[f"kin_{p}"], stoichiometry={p: 1})
            m.add_reaction(f"v_{p}", R.mass_action_1s, args=[p, f"k_{p}"], stoichiometry={p: -1})
        return m, pools

    def run(self, ctx):
        import mxlpy.integrators.int_scipy as isc

        saved = isc.spi
        try:
            self._run(ctx, isc)
        finally:
            isc.spi = saved

    def _run(self, ctx, isc):
        from mxlpy import Simulator
        from mxlpy.types import NoSteadyState

        m, pools = self.build(ctx)
        k = {p: ctx.real(f"p_k_{p}") for p in pools}
        for p in pools:
            ctx.assume(k[p] > 0)
        ystar = [ctx.real(f"ystar_{p}") for p in pools]
        y0 = [ctx.real(f"u_{p}") for p in pools] if self.user_y0 else [ctx.real(f"i_{p}") for p in pools]
        if self.zero_start:
            y0 = [0.0 for _ in pools]
        sym_tol = self.via == "simulator" and not (self.drift and self.rel)
        tol = ctx.real("tol") if sym_tol else 1e-6
        if sym_tol:
            ctx.assume(tol > 0)
        if self.drift:
            c = [ctx.real(f"c_{p}") for p in pools]
            # genuinely no steady state on the scale of the tolerance: every step moves further than it
            ctx.assume(absval(c[0]) >= tol)
            if self.rel:
                for v, ci in zip(y0, c):
                    ctx.assume(v > 0)
                    ctx.assume(ci > 0)
                    ctx.assume(ci >= tol * (v + 1000 * ci))  # relative change stays above the (concrete) tolerance for all 1000 steps
            stub = OdeStub(FlowModel("influx"), ctx.symbolic, ystar=ystar, drift=c, alias=self.alias)
            stub.accelerating = self.accelerating
        else:
            e = ctx.real("e") if self.e_conc is None else self.e_conc
            if self.e_conc is None:
                ctx.assume(e > 0)
                ctx.assume(e <= 0.5)
            bound = tol * (2 ** (self.K - 1))
            for v, s in zip(y0, ystar):
                if self.rel and not self.zero_start:
                    # relative norm: the loop ends by iteration K when |d0| 2^-(K-1) < tol (y* - |d0|); with |d0| < y*/2 that follows from
                    ctx.assume(s > 0)
                    ctx.assume(v > 0)
                    ctx.assume(absval(v - s) * 2 < s)
                    ctx.assume(absval(v - s) * 2 < bound * s)
                    continue
                ctx.assume(absval(v - s) * self.dim < bound)
                if self.rel:
                    ctx.assume(s > 0)
            stub = OdeStub(FlowModel("influx"), ctx.symbolic, ystar=ystar, e=e, alias=self.alias)
        isc.spi = stub

        if self.via == "worker":
            from mxlpy.scan import _steady_state_worker

            with ctx.impl("_steady_state_worker"):
                res = _steady_state_worker(m, rel_norm=self.rel, integrator=None, y0=dict(zip(pools, y0)) if self.user_y0 else None)
                got = res.variables
            if self.drift:
                for p in pools:
                    v = got[p].iloc[-1]
                    ctx.true(f"worker: no steady state -> NaN placeholder [{p}]", isinstance(v, float | np.floating) and v != v, info=repr(v)[:80])
            else:
                self.check_state(ctx, [got[p].iloc[-1] for p in pools], ystar, tol, None, pools, k)
            return

        with ctx.impl("Simulator()"):
            sim = Simulator(m, y0=dict(zip(pools, y0)) if self.user_y0 else None)
        if self.earlier:
            with ctx.impl("earlier simulate"):
                sim.simulate(ctx.real("t_prev_pos") if False else 3.0, steps=1)
            # the search may start from the declared start or continue from the state reached: the assumptions that bound the
            # loop (and define "no steady state") are made for the reached state as well
            reached = [sim.variables[-1][p].iloc[-1] for p in pools]
            if self.drift:
                if self.rel:
                    for v, ci in zip(reached, c):
                        ctx.assume(v > 0)
                        ctx.assume(ci >= tol * (v + 1000 * ci))
            else:
                for v, s_ in zip(reached, ystar):
                    if self.rel and not self.zero_start:
                        ctx.assume(v > 0)
                        ctx.assume(absval(v - s_) * 2 < s_)
                        ctx.assume(absval(v - s_) * 2 < bound * s_)
                    else:
                        ctx.assume(absval(v - s_) * self.dim < bound)
        if self.zero_start:
            # dividing by the empty pool: any failure is acceptable, a reported success must still be a steady state
            try:
                sim.simulate_to_steady_state(tolerance=tol, rel_norm=True)
                result = sim.get_result()
            except ZeroDivisionError:
                ctx.note("relative norm undefined for an empty pool: raised")
                ctx.true("no success reported for an undefined relative norm (raised)", True)
                return
            if isinstance(result.value, Exception):
                ctx.true("no success reported for an undefined relative norm (failure value)", True)
                return
            frame = result.value.raw_variables[-1]
            state = [frame[p].iloc[-1] for p in pools]
            self.check_state(ctx, state, ystar, tol, y0, pools, k)
            return
        with ctx.impl("simulate_to_steady_state"):
            if sym_tol:
                sim.simulate_to_steady_state(tolerance=tol, rel_norm=self.rel)
            else:
                sim.simulate_to_steady_state(rel_norm=self.rel)
            result = sim.get_result()
        if self.drift:
            ctx.true("no steady state within the iteration budget -> failure value, never a state",
                     isinstance(result.value, Exception), info=type(result.value).__name__)
            if self.earlier:
                return
            ctx.true("failure is NoSteadyState", isinstance(result.value, NoSteadyState), info=repr(result.value)[:80])
            return
        ok = not isinstance(result.value, Exception)
        if not ok:
            ctx.note("reported failure (allowed)")
            ctx.true("a contracting flow converges within the assumed bound", False, info=repr(result.value)[:100])
            return
        simres = result.value
        frame = simres.raw_variables[-1]
        state = [frame[p].iloc[-1] for p in pools]
        n = stub.integrations
        prev = None
        if n >= 1:
            f = 1
            for _ in range(n - 1):
                f = f * stub.e
            prev = [s + (v - s) * f for v, s in zip(getattr(stub, "start", None) or y0, ystar)]
        self.check_state(ctx, state, ystar, tol, prev, pools, k)
        with ctx.impl("fluxes"):
            fl = simres.fluxes
        for p, s in zip(pools, state):
            net = fl[f"vin_{p}"].iloc[-1] - fl[f"v_{p}"].iloc[-1]
            if not self.rel:
                ctx.true(f"reported fluxes balance on the scale of the tolerance [{p}]", absval(net) <= k[p] * tol)

    def check_state(self, ctx, state, ystar, tol, prev, pools, k):
        if self.rel:
            for p, s, st, pv in zip(pools, state, ystar, prev or state):
                ctx.true(f"returned state within tolerance*|previous| of the analytic steady state [{p}]", absval(s - st) <= tol * absval(pv))
        elif self.dim == 1:
            ctx.true("returned state within tolerance of the analytic steady state", absval(state[0] - ystar[0]) <= tol)
        else:
            sq = sum(((s - st) * (s - st) for s, st in zip(state, ystar)), 0)
            ctx.true("returned state within tolerance of the analytic steady state (2-norm)", sq <= tol * tol)


def scenarios(tier, seed):
    scs = []
    Ks = [3] if tier == "quick" else [3, 4]
    for alias in (True, False):
        for rel in (False, True):
            for user in (False, True):
                for earlier in (False, True):
                    if rel and earlier and tier == "quick":
                        continue  # relative norm from an uninterpreted reached state: minutes per scenario, thorough tier only
                    for K in Ks:
                        # continuing an earlier simulation starts from an uninterpreted state: concrete contraction factor in the quick tier
                        scs.append(Steady(1, rel, user, earlier, alias, K, e_conc=0.5 if (earlier and tier == "quick") else None))
        for e in (0.5, 0.25):
            scs.append(Steady(2, False, False, False, alias, 3, e_conc=e))
        if tier != "quick":
            scs.append(Steady(2, True, False, False, alias, 3, e_conc=0.5))
        scs.append(Steady(1, False, False, False, alias, 3, via="worker", e_conc=0.5))
        scs.append(Steady(1, True, False, False, alias, 3, via="worker", e_conc=0.5))
        scs.append(Steady(1, True, True, False, alias, 3, e_conc=0.5, zero_start=True))
        scs.append(Steady(1, True, True, False, alias, 3, e_conc=0.25, zero_start=True))
        # no steady state
        for rel in (False, True):
            for earlier in (False, True):
                if rel and earlier and tier == "quick":
                    continue
                scs.append(Steady(1, rel, False, earlier, alias, 0, drift=True))
        scs.append(Steady(1, False, False, False, alias, 0, drift=True, via="worker"))
        scs.append(Steady(1, False, False, False, alias, 0, drift=True, accelerating=True))
        scs.append(Steady(1, False, True, True, alias, 0, drift=True, accelerating=True))
    return scs
