"""C09 — scans equal independent runs, row-aligned, under any scheduling (DESIGN.md, C09)."""
from __future__ import annotations

import copy
import itertools as it
import math

import numpy as np
import pandas as pd

from symlift import core as S
from vf.common import Scenario, as_term
from vf.flow import FlowModel, StubSPI
from vf.props.c04 import MODS
from vf.props.c14 import fluxes_of

LEVEL = "model_checking"
META = {
    "bounds": "scan tables with 2-3 rows (thorough: also 4 rows, and 5 rows on one worker) and 1-2 columns (parameter and/or initial-value columns), every cell symbolic; steady-state, time-course, "
    "protocol and protocol-time-course scans and their mc.* counterparts; sequential execution and the pool stub with every execution order "
    "(all permutations of <=3 tasks); one failing row (its integration reports failure) at every position; models: decay, 2-variable chain, "
    "and a model whose parameter is an initial assignment of a variable (minimal scenarios)",
    "stubs": ["pebble.ProcessPool.map -> runs each task on a deep copy of the callable and its input in a solver-chosen order, yields results in input order "
              "(pebble's documented contract)", "tqdm -> no-op", "scipy.integrate.solve_ivp/ode -> uninterpreted flow",
              "pd/np/float module globals of mxlpy.model, simulator, simulation, scan, mc, parallel, integrators.int_scipy rebound to proxies"],
    "outside": "real OS processes and pickling, worker timeouts, arbitrary cell order patterns in tables with 4 rows and 2 columns (each column strictly decreasing there), more rows than 5 (under per-task isolation the number of workers is immaterial), tqdm",
    "assumptions_list": ["time points of the scans are concrete dyadic numbers", "real arithmetic"],
}


class _Future:
    def __init__(self, results):
        self._r = results

    def result(self):
        return iter(self._r)


class _Pool:
    def __init__(self, owner):
        self.owner = owner

    def __enter__(self):
        return self

    def __exit__(self, *a):
        return False

    def schedule(self, function, args=(), kwargs=None, timeout=None):
        f = copy.deepcopy(function)
        return _Sched(f(*copy.deepcopy(tuple(args)), **copy.deepcopy(kwargs or {})))

    def map(self, fn, inputs, timeout=None, chunksize=1, **kw):
        inputs = list(inputs)
        n = len(inputs)
        chunksize = max(1, int(chunksize))
        chunks = [list(range(i, min(i + chunksize, n))) for i in range(0, n, chunksize)]
        # pebble: a chunk is one task - its elements run one after the other on ONE unpickled copy of the function
        perms = list(it.permutations(range(len(chunks)))) if len(chunks) <= 3 else [tuple(range(len(chunks))), tuple(reversed(range(len(chunks))))]
        order = perms[self.owner.ctx.choose(len(perms), "pool execution order")] if self.owner.explore else perms[0]
        self.owner.orders.append(order)
        results = [None] * n
        for ci in order:
            f = copy.deepcopy(fn)  # a task only ever sees a pickled copy
            for i in chunks[ci]:
                results[i] = f(copy.deepcopy(inputs[i]))
        return _Future(results)


class _Sched:
    """pebble.ProcessFuture stand-in for ProcessPool.schedule: the task ran on a pickled copy."""

    def __init__(self, value):
        self._v = value

    def result(self, timeout=None):
        return self._v

    def done(self):
        return True

    def add_done_callback(self, fn):
        fn(self)


class PebbleStub:
    def __init__(self, ctx):
        self.ctx = ctx
        self.orders = []
        self.explore = True  # False: tasks run in input order (no scheduling choice)

    def as_completed(self, futures, timeout=None):
        """concurrent.futures.as_completed: completion order is arbitrary -> solver-chosen."""
        futures = list(futures)
        perms = list(it.permutations(range(len(futures))))
        order = perms[self.ctx.choose(len(perms), "completion order")]
        return iter([futures[i] for i in order])

    def ProcessPool(self, max_workers=None, **kw):  # noqa: N802
        return _Pool(self)


class _Tqdm:
    def __init__(self, iterable=None, **kw):
        self.it = iterable

    def __iter__(self):
        return iter(self.it)

    def __enter__(self):
        return self

    def __exit__(self, *a):
        return False

    def update(self, n=1):
        pass


def isnan(x):
    try:
        return isinstance(x, float | np.floating) and math.isnan(x)
    except TypeError:
        return False


class Scan(Scenario):
    modules = [*MODS, "mxlpy", "mxlpy.scan", "mxlpy.mc", "mxlpy.parallel"]
    float_shim = ["mxlpy.model", "mxlpy.simulator"]
    isinstance_shim = ["mxlpy.simulation"]
    max_paths = 4000

    def __init__(self, kind, scan_kind, cols, nrows, parallel, fail_row=None, via_mc=False, read=("variables", "fluxes"), max_workers=None,
                 after_y0_scan=False, dup_labels=False, tps_from_zero=True, unknown_col=False):
        self.unknown_col = unknown_col  # the table has a column that names neither a parameter nor a variable of the model
        self.tps_from_zero = tps_from_zero  # False: the requested grid does not contain the start (the result still does)
        self.after_y0_scan = after_y0_scan  # an earlier scan of the same model was given y0=...: that is that scan's business only
        self.dup_labels = dup_labels  # the scan table repeats a row label: refused, or answered row by row
        self.max_workers = max_workers
        self.kind = kind
        self.scan_kind = scan_kind
        self.cols = tuple(cols)
        self.nrows = nrows
        self.parallel = parallel
        self.fail_row = fail_row
        self.via_mc = via_mc
        self.read = tuple(read)
        self.key = (f"C09/{kind}/{'mc.' if via_mc else ''}{scan_kind}/{'+'.join(cols)}/r{nrows}/"
                    f"{'pool' if parallel else 'seq'}{f'/fail{fail_row}' if fail_row is not None else ''}/{'-'.join(read)}"
                    f"{'' if max_workers is None else '/workers' + str(max_workers)}{'/after-y0-scan' if after_y0_scan else ''}{'/dup-labels' if dup_labels else ''}{'' if tps_from_zero else '/grid-without-start'}{'/unknown-column' if unknown_col else ''}")

    def run(self, ctx):
        import mxlpy.integrators.int_scipy as isc
        import mxlpy.parallel as mpar

        fm = FlowModel(self.kind)
        saved = (isc.spi, mpar.pebble, mpar.tqdm)
        spi = StubSPI(fm, ctx.symbolic)
        isc.spi = spi
        mpar.pebble = PebbleStub(ctx)
        mpar.tqdm = _Tqdm
        had_ac = getattr(mpar, "as_completed", None)
        if had_ac is not None:
            mpar.as_completed = mpar.pebble.as_completed
        try:
            self._run(ctx, fm, spi)
        finally:
            isc.spi, mpar.pebble, mpar.tqdm = saved
            if had_ac is not None:
                mpar.as_completed = had_ac

    def _run(self, ctx, fm, spi):
        from mxlpy import make_protocol, mc, scan

        sym = ctx.symbolic
        m = fm.build(ctx)
        names = m.get_variable_names()
        base_p = {n: ctx.real(f"p_{n}") for n in m.get_parameter_names() if n != "kia"}
        base_y = {v: ctx.real(f"i_{v}") for v in names}
        table = {c: [ctx.real(f"cell{r}_{c}") for r in range(self.nrows)] for c in self.cols}
        labels = [5, 2, 9, 1, 7, 3][: self.nrows]  # row labels deliberately not ascending
        if self.dup_labels:
            labels[-1] = labels[0]
        if self.nrows >= 4 and len(self.cols) > 1:
            # pandas compares the cells of a multi-column table with each other (equality and order patterns multiply the
            # paths: > 4000 for 4 rows x 2 columns); here every column is strictly decreasing - distinct cells whose sorted
            # order is the reverse of the input order
            for c in self.cols:
                for a, b in zip(table[c], table[c][1:]):
                    ctx.assume(a > b)
        to_scan = pd.DataFrame(table, index=labels, dtype=object if sym else float)
        if self.fail_row is not None:
            # the designated row's integration reports failure
            mark = {c: table[c][self.fail_row] for c in self.cols}

            def fail_if(pvals, y0):
                for c, v in mark.items():
                    cur = pvals[c] if c in pvals else y0[names.index(c)]
                    if sym:
                        if not S.z3.eq(S.z3.simplify(as_term(cur)), S.z3.simplify(as_term(v))):
                            return False
                    elif float(cur) != float(v):
                        return False
                return True

            spi.fail_if = fail_if
            if not sym:
                # distinct rows needed to designate one of them by value
                vals = [tuple(float(table[c][r]) for c in self.cols) for r in range(self.nrows)]
                ctx.assume(len(set(vals)) == len(vals))
        if self.scan_kind == "mcscan":
            self._mcscan(ctx, fm, m, names, base_p, base_y, table, labels, sym)
            return
        tps = [0.0, 0.25, 0.5]
        proto_steps = None
        if self.scan_kind in ("proto", "ptc"):
            pn = [n for n in base_p if n not in self.cols][0]
            proto_steps = [(1.0, {pn: ctx.real("st0")}), (0.5, {pn: ctx.real("st1")})]
            protocol = make_protocol(proto_steps)
        mod = mc if self.via_mc else scan
        kw = {"mc_to_scan": to_scan} if self.via_mc else {"to_scan": to_scan}
        if not self.via_mc:
            kw["parallel"] = self.parallel
        elif self.max_workers is not None:
            kw["max_workers"] = self.max_workers
        if self.after_y0_scan:
            # an earlier scan of the same model object, started from supplied values
            with ctx.impl("earlier scan with y0="):
                pre_kw = dict(kw)
                pre_kw["y0"] = {names[0]: ctx.real("pre_y0")}
                if self.scan_kind == "ss":
                    mod.steady_state(m, **pre_kw)
                else:
                    mod.time_course(m, time_points=np.array(tps), **pre_kw)
        if self.unknown_col:
            # an independent run with these values is impossible (update_parameters refuses the name): so must the scan be
            bad = to_scan.copy()
            bad["nope"] = [1.0] * self.nrows
            kw_bad = dict(kw)
            kw_bad["mc_to_scan" if self.via_mc else "to_scan"] = bad
            try:
                if self.scan_kind == "ss":
                    mod.steady_state(m, **kw_bad)
                else:
                    mod.time_course(m, time_points=np.array(tps), **kw_bad)
            except Exception as e:  # noqa: BLE001
                ctx.note(f"refused: {type(e).__name__}")
                ctx.true("a scan column that names nothing in the model is refused", True)
                return
            ctx.true("a scan column that names nothing in the model is refused", False, info="the column was ignored")
            return
        if self.dup_labels:
            try:
                if self.scan_kind == "ss":
                    res = mod.steady_state(m, **kw)
                else:
                    res = mod.time_course(m, time_points=np.array(tps), **kw)
            except ValueError as e:
                ctx.note(f"refused: {e}")
                ctx.true("a table with a repeated row label is refused (ValueError)", True)
                return
            n_rows = len(res.variables) if self.scan_kind == "ss" else len(res.raw_results)
            ctx.true("a table with a repeated row label: one result per row (or a refusal)", n_rows == self.nrows, info=f"{n_rows} results for {self.nrows} rows")
            if n_rows != self.nrows or self.scan_kind != "ss":
                return
        with ctx.impl("scan"):
            if self.dup_labels:
                pass
            elif self.scan_kind == "ss":
                res = mod.steady_state(m, **kw)
            elif self.scan_kind == "tc":
                res = mod.time_course(m, time_points=np.array(tps if self.tps_from_zero else tps[1:]), **kw)
            elif self.scan_kind == "proto":
                res = mod.protocol(m, protocol=protocol, time_points_per_step=1, **kw)
            else:
                res = mod.protocol_time_course(m, protocol=protocol, time_points=np.array([0.5, 1.25]), **kw)
        # ---- oracle: each row alone, on fresh values
        exp = []  # per row: list of (time, y, p)
        for r in range(self.nrows):
            p = dict(base_p)
            y0 = dict(base_y)
            for c in self.cols:
                if c in p:
                    p[c] = table[c][r]
                else:
                    y0[c] = table[c][r]
            if self.kind == "ia_decay":
                p["kia"] = table["kia"][r] if "kia" in self.cols else 2 * y0["x"]
            ps = {k: p[k] for k in sorted(p)}
            yv = [y0[v] for v in names]
            rows = []
            if self.scan_kind == "ss":
                rows.append((None, fm.flow(ps, yv, 0.0, 100.0, sym), ps))
            elif self.scan_kind == "tc":
                rows.append((0.0, yv, ps))
                for t in tps[1:]:
                    rows.append((t, fm.flow(ps, yv, 0.0, t, sym), ps))
            else:
                pts_by_step = [[0.0, 1.0], [1.0, 1.5]] if self.scan_kind == "proto" else [[0.0, 0.5, 1.0], [1.0, 1.25, 1.5]]
                cur = yv
                for si, (pts, (d, vals)) in enumerate(zip(pts_by_step, proto_steps)):
                    pk = dict(ps)
                    pk.update(vals)
                    pk = {k: pk[k] for k in sorted(pk)}
                    seg = [(t, fm.flow(pk, cur, pts[0], t, sym), pk) for t in pts]
                    rows += seg if si == 0 else seg[1:]
                    cur = seg[-1][1]
            exp.append(rows)
        failed = set() if self.fail_row is None else {self.fail_row}
        for what in self.read:
            with ctx.impl(f"read {what}"):
                df = res.variables if what == "variables" else res.fluxes
            base_kind = fm.kind if fm.kind != "ia_decay" else "decay"
            cols = (names + (["total"] if fm.readout else [])) if what == "variables" else list(fluxes_of(base_kind, {"k": 0, "k1": 0, "k2": 0}, [0, 0]))
            flat = [(r, row) for r in range(self.nrows) for row in exp[r]]
            ctx.true(f"{what}: one row per (scan row, time point), in input order", len(df) == len(flat), info=f"{len(df)} vs {len(flat)}")
            if len(df) != len(flat):
                continue
            for j, (r, (t, y, p)) in enumerate(flat):
                label = df.index[j]
                if self.scan_kind == "ss":
                    key = tuple(table[c][r] for c in self.cols)
                    got = label if isinstance(label, tuple) else (label,)
                    for a, b, c in zip(got, key, self.cols):
                        ctx.eq(f"{what}: index[{j}] {c}", a, b)
                else:
                    ctx.true(f"{what}: index[{j}] = (row label, time)", label[0] == labels[r] and label[1] == t, info=f"{label} vs {(labels[r], t)}")
                if what == "variables":
                    expv = dict(zip(names, y))
                    if fm.readout:
                        expv["total"] = 2 * y[0]
                else:
                    pk = dict(p)
                    if self.kind == "ia_decay":
                        pk["k"] = pk["kia"]
                    expv = fluxes_of(base_kind, pk, y)
                    if self.kind == "ia_decay":
                        expv = {"v": expv["v"]}
                for c in cols:
                    cname = c
                    got = df[cname].iloc[j]
                    if r in failed:
                        ctx.true(f"{what}: failed row {r} is NaN at [{j},{c}]", isnan(got), info=repr(got)[:80])
                    else:
                        ctx.eq(f"{what}: [{j},{c}]", got, expv[c])


def _mcscan(self, ctx, fm, m, names, base_p, base_y, table, labels, sym):
    """mc.scan_steady_state: a steady-state scan over initial values nested in a Monte-Carlo scan over parameters."""
    from mxlpy import mc

    mc_to_scan = pd.DataFrame({"k": table["k"]}, index=labels, dtype=object if sym else float)
    inner = [ctx.real(f"inner{r}_x") for r in range(2)]
    to_scan = pd.DataFrame({"x": inner}, dtype=object if sym else float)
    with ctx.impl("mc.scan_steady_state"):
        res = mc.scan_steady_state(m, to_scan=to_scan, mc_to_scan=mc_to_scan)
        frames = {"variables": res.variables, "fluxes": res.fluxes}
    flat = [(r, j) for r in range(self.nrows) for j in range(2)]
    for what, df in frames.items():
        ctx.true(f"{what}: one row per (Monte-Carlo row, scan row), in input order", len(df) == len(flat), info=f"{len(df)} vs {len(flat)}")
        if len(df) != len(flat):
            continue
        for pos, (r, j) in enumerate(flat):
            label = df.index[pos]
            ctx.true(f"{what}: index[{pos}] carries the Monte-Carlo row label", label[0] == labels[r], info=str(label))
            ctx.eq(f"{what}: index[{pos}] carries the scanned value", label[1], inner[j])
            p = {"k": table["k"][r]}
            xs = fm.flow(p, [inner[j]], 0.0, 100.0, sym)[0]
            if what == "variables":
                ctx.eq(f"variables: [{pos},x]", df["x"].iloc[pos], xs)
            else:
                ctx.eq(f"fluxes: [{pos},v]", df["v"].iloc[pos], p["k"] * xs)


Scan._mcscan = _mcscan


def scenarios(tier, seed):
    scs = []
    kinds = ["ss", "tc", "proto", "ptc"]
    for sk in kinds:
        for par in (False, True):
            cols_list = [("k",), ("x",), ("k", "x")] if sk in ("ss", "tc") else [("x",)]
            for cols in cols_list:
                scs.append(Scan("decay", sk, cols, 2, par))
            if sk in ("ss", "tc"):
                scs.append(Scan("decay", sk, ("k",), 3, par, read=("fluxes", "variables")))
                for fr in range(3 if tier != "quick" else 2):
                    scs.append(Scan("decay", sk, ("k",), 3 if tier != "quick" else 2, par, fail_row=fr))
            ccols = ("k2", "y") if sk in ("ss", "tc") else ("k2",)
            scs.append(Scan("chain", sk, ccols, 2, par))
    # mc wrappers
    for sk in (["ss", "tc"] if tier == "quick" else kinds):
        for par in (True,):
            scs.append(Scan("decay", sk, ("k", "x") if sk in ("ss", "tc") else ("x",), 2, par, via_mc=True))
    scs.append(Scan("decay", "mcscan", ("k",), 2, True))
    if tier != "quick":
        # four rows: the pool stub runs the four tasks in input order and in reverse (24 orders would multiply the paths without
        # adding behaviours: every task runs on its own copy)
        for sk in ("ss", "tc"):
            scs.append(Scan("decay", sk, ("k", "x"), 4, True))
            scs.append(Scan("chain", sk, ("k2", "y"), 4, False))
            scs.append(Scan("decay", sk, ("k",), 4, True, fail_row=2))
    # the placeholder of a failing row has the grid of the rows that succeed: a request that does not name the start, protocol scans
    for par in (False, True):
        scs.append(Scan("decay", "tc", ("k",), 2, par, fail_row=1, tps_from_zero=False))
        scs.append(Scan("decay", "proto", ("x",), 2, par, fail_row=0))
        scs.append(Scan("decay", "ptc", ("x",), 2, par, fail_row=1))
    for sk in ("ss", "tc"):
        scs.append(Scan("decay", sk, ("k",), 2, False, unknown_col=True))
    scs.append(Scan("decay", "tc", ("k",), 2, True, unknown_col=True))
    # an earlier scan with y0= must not leak into this one; a repeated row label is refused or answered per row
    for sk in ("ss", "tc"):
        scs.append(Scan("decay", sk, ("k",), 2, False, after_y0_scan=True))
        scs.append(Scan("decay", sk, ("k",), 3, False, dup_labels=True))
    scs.append(Scan("decay", "tc", ("k",), 2, True, after_y0_scan=True))
    scs.append(Scan("decay", "tc", ("k",), 3, True, dup_labels=True))
    # a failing row in a model with a readout (the placeholder must have the readout column as well)
    for sk in ("ss", "tc"):
        for par in (False, True):
            scs.append(Scan("decay_ro", sk, ("k",), 2, par, fail_row=1))
    # more rows than 4 x workers (pebble hands a worker several rows at once)
    scs.append(Scan("ia_decay", "tc", ("x",), 5, True, via_mc=True, max_workers=1))
    scs.append(Scan("decay", "tc", ("k", "x"), 5, True, via_mc=True, max_workers=1, read=("fluxes", "variables")))
    # minimal scenarios: parameter defined by an initial assignment of a scanned variable
    for par in (False, True):
        scs.append(Scan("ia_decay", "tc", ("x",), 2, par))
        scs.append(Scan("ia_decay", "tc", ("kia",), 2, par))
        scs.append(Scan("ia_decay", "ss", ("kia", "x"), 2, par))
        # lazily read results of all rows after the scan, fluxes first (each row's result must carry its own model)
        scs.append(Scan("ia_decay", "tc", ("x",), 3, par, read=("fluxes", "variables")))
        if tier != "quick":
            scs.append(Scan("ia_decay", "ss", ("x",), 3, par, read=("fluxes", "variables")))
            scs.append(Scan("ia_decay", "tc", ("kia", "x"), 3, par))
            scs.append(Scan("ia_decay", "tc", ("x",), 3, par, fail_row=1))
    return scs
