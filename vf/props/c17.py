"""C17 — SBML import builds the model the document describes (DESIGN.md, C17)."""
from __future__ import annotations

import hashlib
import math
import shutil
import sys
import tempfile
from pathlib import Path

from symlift.proxies import MATH
from vf.common import Scenario
from vf.props import c08  # noqa: F401  (sets HOME to a scratch directory)

LEVEL = "translation_validation"
META = {
    "bounds": "generated SBML L3V2 documents: <=3 species in one compartment (size 1, another constant size, or prescribed by an initial assignment), <=3 parameters, a function definition called with permuted arguments, "
    "chained assignment rules, initial assignments on species and parameters, kinetic laws with piecewise / power / exp / ln, constant, fractional and "
    "rule-defined stoichiometries, 1-2 reactions; identifiers from a pool of legal SBML ids that are awkward in Python, one per role; a second document "
    "(same file name in another directory, and a different name) read in the same session",
    "stubs": ["documents are written with libsbml from abstract descriptions; pysbml/libsbml run concretely; `math` of the generated module bound to the UF proxy"],
    "outside": "initial values of species whose compartment is re-sized by an initial assignment, several compartments, compartments that vary in time, events, delays, algebraic and rate rules, units, hasOnlySubstanceUnits variants, boundary species",
    "assumptions_list": ["the oracle is the harness's own reading of the abstract document: d[S]/dt = sum of stoichiometry * kinetic law, V = 1", "real arithmetic"],
}

AWKWARD = ["lambda", "in", "time_", "init_x", "Model", "math", "_x", "x__1", "scipy", "Derived"]


# ---- abstract expressions ----------------------------------------------------------------------
def formula(e):
    k = e[0]
    if k == "num":
        return repr(e[1])
    if k == "id":
        return e[1]
    if k in ("+", "-", "*", "/"):
        return f"({formula(e[1])} {k} {formula(e[2])})"
    if k == "pow":
        return f"pow({formula(e[1])}, {e[2]})"
    if k == "call":
        return f"{e[1]}({', '.join(formula(a) for a in e[2])})"
    if k == "piecewise":
        return f"piecewise({formula(e[1])}, {formula(e[2])}, {formula(e[3])})"
    if k in ("lt", "gt", "leq", "geq"):
        return f"({formula(e[1])} {dict(lt='<', gt='>', leq='<=', geq='>=')[k]} {formula(e[2])})"
    if k in ("exp", "ln"):
        return f"{k}({formula(e[1])})"
    raise ValueError(k)


def evaluate(e, env, funcs):
    k = e[0]
    if k == "num":
        return e[1]
    if k == "id":
        v = env[e[1]]
        return v() if callable(v) else v
    if k in ("+", "-", "*", "/"):
        a, b = evaluate(e[1], env, funcs), evaluate(e[2], env, funcs)
        return a + b if k == "+" else a - b if k == "-" else a * b if k == "*" else a / b
    if k == "pow":
        return evaluate(e[1], env, funcs) ** e[2]
    if k == "call":
        argn, body = funcs[e[1]]
        vals = [evaluate(a, env, funcs) for a in e[2]]
        return evaluate(body, dict(zip(argn, vals)), funcs)
    if k == "piecewise":
        return evaluate(e[1], env, funcs) if bool(evaluate(e[2], env, funcs)) else evaluate(e[3], env, funcs)
    if k in ("lt", "gt", "leq", "geq"):
        a, b = evaluate(e[1], env, funcs), evaluate(e[2], env, funcs)
        return a < b if k == "lt" else a > b if k == "gt" else a <= b if k == "leq" else a >= b
    if k == "exp":
        return (MATH if not isinstance(evaluate(e[1], env, funcs), float) else math).exp(evaluate(e[1], env, funcs))
    if k == "ln":
        return (MATH if not isinstance(evaluate(e[1], env, funcs), float) else math).log(evaluate(e[1], env, funcs))
    raise ValueError(k)


def I(n):  # noqa: E743
    return ("id", n)


def N(v):
    return ("num", v)


def make_doc(name, ids=None, features=()):
    """Abstract document. ids: optional renaming {role: id}."""
    r = dict(S1="S1", S2="S2", S3="S3", k1="k1", k2="k2", k3="k3", f="f", R1="R1", R2="R2", sr="sr")
    r.update(ids or {})
    S1, S2, S3, k1, k2, k3, f, R1, R2, sr = (r[x] for x in ("S1", "S2", "S3", "k1", "k2", "k3", "f", "R1", "R2", "sr"))
    d = dict(name=name, species=[(S1, 2.0), (S2, 0.5)], params=[(k1, 3.0, True)], functions=[], rules=[], init=[], reactions=[], srefs={},
             comp_size=1.0, comp_init=None)
    if "compartment_size" in features:
        d["comp_size"] = 2.0
    if "compartment_assignment" in features:
        d["comp_init"] = ("*", I(k1), N(0.5))  # declared 1, prescribed k1/2 by an initial assignment
    law = ("*", I(k1), I(S1))
    st_r, st_p = [(S1, 1.0)], [(S2, 1.0)]
    if "function" in features:
        d["functions"].append((f, ["a", "b"], ("*", I("a"), ("*", I("b"), I("b")))))
        law = ("call", f, [I(k1), I(S1)])
    if "function_permuted" in features:
        d["functions"].append((f, ["a", "b"], ("-", ("*", N(2.0), I("a")), I("b"))))
        law = ("+", ("call", f, [I(S1), I(k1)]), ("call", f, [I(k1), I(S1)]))
    if "rule" in features:
        d["params"].append((k2, None, False))
        d["rules"].append((k2, ("+", I(k1), I(S2))))
        law = ("*", law, I(k2))
    if "rule_chain" in features:
        d["params"] += [(k2, None, False), (k3, None, False)]
        d["rules"] += [(k3, ("*", I(k2), N(2.0))), (k2, ("+", I(k1), I(S2)))]  # declared out of dependency order
        law = ("*", law, I(k3))
    if "init_species" in features:
        d["init"].append((S2, ("/", I(k1), N(4.0))))
    if "init_param" in features:
        d["params"].append((k2, 1.0, True))
        d["init"].append((k2, ("*", I(k1), N(2.0))))
        law = ("*", law, I(k2))
    if "piecewise" in features:
        law = ("piecewise", law, ("gt", I(S1), N(1.0)), I(k1))
    if "pow" in features:
        law = ("*", I(k1), ("pow", I(S1), 3))
    if "exp" in features:
        law = ("*", law, ("exp", ("-", N(0.0), I(S2))))
    if "ln" in features:
        law = ("*", law, ("ln", I(S1)))
    if "guarded_log" in features:
        # the logarithm is only evaluated inside its guard; outside, the law is the plain constant branch
        law = ("piecewise", ("+", ("*", I(k1), ("ln", I(S1))), ("*", I(S2), ("ln", I(S1)))), ("gt", I(S1), N(1.0)), I(k1))
    if "guarded_division" in features:
        law = ("piecewise", ("+", ("/", I(k1), I(S2)), ("/", I(k1), I(S2))), ("gt", I(S2), N(0.5)), N(2.0))
    if "fractional" in features:
        st_r, st_p = [(S1, 1.5)], [(S2, 0.25)]
    if "rule_stoichiometry" in features:
        st_p = [(S2, ("ref", sr))]
        d["srefs"][sr] = ("*", N(2.0), I(k1))
    d["reactions"].append((R1, st_r, st_p, law))
    if "two_reactions" in features:
        d["species"].append((S3, 1.0))
        d["reactions"].append((R2, [(S2, 2.0)], [(S3, 1.0), (S1, 1.0)], ("*", I(k1), ("*", I(S2), I(S2)))))
    return d


def write_doc(d, path):
    import libsbml

    ns = libsbml.SBMLNamespaces(3, 2)
    doc = libsbml.SBMLDocument(ns)
    m = doc.createModel()
    m.setId("doc")
    c = m.createCompartment()
    c.setId("comp")
    c.setConstant(True)
    c.setSize(d.get("comp_size", 1.0))
    c.setSpatialDimensions(3)
    for sid, v in d["species"]:
        s = m.createSpecies()
        s.setId(sid)
        s.setCompartment("comp")
        s.setInitialConcentration(v)
        s.setConstant(False)
        s.setBoundaryCondition(False)
        s.setHasOnlySubstanceUnits(False)
    for pid, v, const in d["params"]:
        p = m.createParameter()
        p.setId(pid)
        p.setConstant(const)
        if v is not None:
            p.setValue(v)
    for fid, argn, body in d["functions"]:
        fd = m.createFunctionDefinition()
        fd.setId(fid)
        fd.setMath(libsbml.parseL3Formula(f"lambda({', '.join(argn)}, {formula(body)})"))
    for var, e in d["rules"]:
        ar = m.createAssignmentRule()
        ar.setVariable(var)
        ar.setMath(libsbml.parseL3Formula(formula(e)))
    if d.get("comp_init") is not None:
        ia = m.createInitialAssignment()
        ia.setSymbol("comp")
        ia.setMath(libsbml.parseL3Formula(formula(d["comp_init"])))
    for sym, e in d["init"]:
        ia = m.createInitialAssignment()
        ia.setSymbol(sym)
        ia.setMath(libsbml.parseL3Formula(formula(e)))
    for rid, reac, prod, law in d["reactions"]:
        r = m.createReaction()
        r.setId(rid)
        r.setReversible(False)
        for lst, mk in ((reac, r.createReactant), (prod, r.createProduct)):
            for sid, st in lst:
                sr = mk()
                sr.setSpecies(sid)
                if isinstance(st, tuple):
                    sr.setId(st[1])
                    sr.setConstant(False)
                else:
                    sr.setStoichiometry(st)
                    sr.setConstant(True)
        math_ = libsbml.parseL3Formula(formula(law))
        if math_ is None:
            raise ValueError(f"libsbml cannot parse {formula(law)}")
        r.createKineticLaw().setMath(math_)
    for srid, e in d["srefs"].items():
        ar = m.createAssignmentRule()
        ar.setVariable(srid)
        ar.setMath(libsbml.parseL3Formula(formula(e)))
    libsbml.writeSBMLToFile(doc, str(path))


_REAL_MODULES = {"math": math}


class Import(Scenario):
    modules = ["mxlpy.model"]
    float_shim = ["mxlpy.model"]

    def __init__(self, doc, second=None, first=None, first_stem=None):
        self.first_stem = first_stem  # file name (without .xml) of the document read first, e.g. the name of a standard module
        self.doc = doc
        self.second = second  # ("same_stem" | "other", doc2): read afterwards, must not disturb the first model
        self.first = first  # a document with the same file name (other directory), both on disk, read before this one
        self.key = f"C17/{doc['name']}" + (f"/then-{second[0]}-{second[1]['name']}" if second else "") + (
            (f"/after-same-stem-{first['name']}" if first_stem is None else f"/after-{first_stem}.xml-{first['name']}") if first else "")
        self._m = None

    def load(self):
        from mxlpy import sbml
        from mxlpy.sbml._import import valid_filename

        stem = "d" + hashlib.sha1(self.key.encode()).hexdigest()[:12]
        tmp = Path(tempfile.mkdtemp(prefix="c17_"))
        try:
            f = tmp / f"{stem}.xml"
            write_doc(self.doc, f)
            if self.first is not None:
                (tmp / "first").mkdir()
                first_file = tmp / "first" / f"{self.first_stem or stem}.xml"
                write_doc(self.first, first_file)
                try:
                    sbml.read(first_file)
                except Exception:  # noqa: BLE001
                    pass
            try:
                m = sbml.read(f)
            except Exception as e:  # noqa: BLE001
                return ("error", e)
            mod = sys.modules.get(valid_filename(stem))
            self._std_ok = None
            if self.first_stem is not None:
                import importlib

                real = _REAL_MODULES[self.first_stem]
                self._std_ok = (sys.modules.get(self.first_stem) is real, mod is None or mod.__dict__.get(self.first_stem, real) is real)
                sys.modules[self.first_stem] = real  # whatever happened, later scenarios of this process see the real module
                importlib.invalidate_caches()
            if self.second is not None:
                kind, d2 = self.second
                (tmp / "other").mkdir()
                f2 = (tmp / "other" / f"{stem}.xml") if kind == "same_stem" else (tmp / f"{stem}_b.xml")
                write_doc(d2, f2)
                try:
                    sbml.read(f2)
                except Exception:  # noqa: BLE001
                    pass
            try:
                ic = dict(m.get_initial_conditions())
            except Exception as e:  # noqa: BLE001
                return ("error", e)
            return ("ok", m, mod, ic)
        finally:
            shutil.rmtree(tmp, ignore_errors=True)

    def run(self, ctx):
        if self._m is None:
            self._m = self.load()
        res = self._m
        d = self.doc
        if res[0] == "error":
            import traceback

            frames = traceback.extract_tb(res[1].__traceback__)
            if frames and "pysbml" in frames[-1].filename:
                # raised inside the third-party parser: not MxlPy's code, nothing to decide here
                ctx.note(f"pysbml raised {type(res[1]).__name__}")
                ctx.true("document rejected by the third-party parser (outside the claim)", True)
                return
            ctx.true(f"the document is imported ({type(res[1]).__name__}: {res[1]})"[:170], False)
            return
        _, m, mod, ic = res
        if getattr(self, "_std_ok", None) is not None:
            ctx.true(f"reading {self.first_stem}.xml leaves the interpreter's module '{self.first_stem}' alone", self._std_ok[0])
            ctx.true(f"the module generated for a later document imports the real '{self.first_stem}'", self._std_ok[1])
        if mod is not None:
            mod.__dict__["math"] = MATH if ctx.symbolic else math
        species = [s for s, _ in d["species"]]
        mvars = m.get_variable_names()
        ctx.true("one model variable per species, in document order", len(mvars) == len(species), info=f"{mvars} vs {species}")
        if len(mvars) != len(species):
            return
        vmap = dict(zip(species, mvars))
        mpars = m.get_parameter_names()
        # constant plain parameters become symbols in both the model and the oracle
        pvals = {}
        init_targets = {s for s, _ in d["init"]}
        for pid, v, const in d["params"]:
            if const and pid not in init_targets:
                target = next((c_ for c_ in (pid, pid + "_", "_" + pid) if c_ in mpars), None)
                ctx.true(f"parameter {pid} resolves to a model parameter", target is not None, info=str(mpars))
                if target is None:
                    return
                pvals[pid] = ctx.real(f"p_{pid}")
                m.update_parameter(target, pvals[pid])
        funcs = {fid: (argn, body) for fid, argn, body in d["functions"]}
        rules = dict(d["rules"])
        rules.update(d["srefs"])

        def env_for(state):
            env = {}
            for sid in species:
                env[sid] = state[sid]
            for pid, v, const in d["params"]:
                if pid in pvals:
                    env[pid] = pvals[pid]
                elif v is not None and pid not in rules:
                    env[pid] = v
            for var, e in rules.items():
                env[var] = (lambda e=e: evaluate(e, env, funcs))
            return env

        # initial values (declared, or prescribed by an initial assignment evaluated at the declared state)
        decl_state = {sid: v for sid, v in d["species"]}
        env0 = env_for(decl_state)
        inits = dict(d["init"])
        for pid, e in inits.items():
            if pid not in decl_state:
                env0[pid] = evaluate(e, env0, funcs)
        for sid, v in d["species"]:
            if d.get("comp_init") is not None:
                break  # how a re-sized compartment rescales declared concentrations is not part of the harness's reading (outside)
            exp0 = evaluate(inits[sid], env0, funcs) if sid in inits else v
            with ctx.impl("initial conditions"):
                got = m.get_initial_conditions()[vmap[sid]]
            ctx.eq(f"initial value of species {sid}", got, exp0)
        # derivatives at every state
        state = {sid: ctx.real(f"s_{i}") for i, sid in enumerate(species)}
        T = ctx.real("T")
        env = env_for(state)
        for pid, e in inits.items():
            if pid not in decl_state:
                env[pid] = env0[pid]
        exp = {sid: 0.0 for sid in species}
        for rid, reac, prod, law in d["reactions"]:
            try:
                v = evaluate(law, env, funcs)
            except (ValueError, ZeroDivisionError):
                return  # the document's own kinetic law is undefined at this state
            for lst, sign in ((reac, -1), (prod, 1)):
                for sid, st in lst:
                    coef = evaluate(I(st[1]), env, funcs) if isinstance(st, tuple) else st
                    exp[sid] = exp[sid] + sign * coef * v
        # species are concentrations in one compartment: kinetic laws are amounts per time, so d[S]/dt = (1/V) sum(nu * law)
        vol = d.get("comp_size", 1.0)
        if d.get("comp_init") is not None:
            vol = evaluate(d["comp_init"], env0, funcs)
        with ctx.impl("imported model evaluates"):
            out = m(T, [state[s] for s in species])
        for sid, o in zip(species, out):
            ctx.eq(f"d[{sid}]/dt = stoichiometry x kinetic laws of the document", o, exp[sid] / vol)


FEATURE_SETS = [
    (), ("function",), ("function_permuted",), ("rule",), ("rule_chain",), ("init_species",), ("init_param",), ("piecewise",), ("pow",),
    ("exp",), ("ln",), ("fractional",), ("rule_stoichiometry",), ("two_reactions",),
    ("function", "rule", "fractional"), ("rule_chain", "piecewise", "two_reactions"), ("init_species", "rule_stoichiometry", "function_permuted"),
    ("init_param", "pow", "two_reactions", "fractional"),
    ("guarded_log",), ("guarded_division",), ("compartment_size",), ("compartment_assignment",), ("compartment_size", "fractional", "two_reactions"),
    ("compartment_assignment", "rule", "fractional"),
]
ROLES = {"species": "S1", "parameter": "k1", "function": "f", "reaction": "R1"}


def scenarios(tier, seed):
    scs = []
    for fs in FEATURE_SETS:
        scs.append(Import(make_doc("plain/" + ("+".join(fs) or "basic"), features=fs)))
    for awk in AWKWARD:
        for role, key in ROLES.items():
            feats = ("function", "rule") if role == "function" else ("rule",)
            scs.append(Import(make_doc(f"id/{awk}/as-{role}", ids={key: awk}, features=feats)))
    a = make_doc("plain/function+rule", features=("function", "rule"))
    b = make_doc("plain/pow", features=("pow",))
    scs.append(Import(a, second=("same_stem", b)))
    scs.append(Import(a, second=("other", b)))
    scs.append(Import(b, second=("same_stem", a)))
    scs.append(Import(b, first=a))
    scs.append(Import(a, first=b))
    scs.append(Import(make_doc("plain/fractional", features=("fractional",)), first=make_doc("plain/basic")))
    # a document whose file name is that of a module the generated code imports
    scs.append(Import(make_doc("plain/exp", features=("exp",)), first=make_doc("plain/basic"), first_stem="math"))
    if tier != "quick":
        import itertools as it

        feats = ["function", "rule", "init_species", "piecewise", "fractional", "rule_stoichiometry", "two_reactions", "exp"]
        for combo in it.combinations(feats, 3):
            scs.append(Import(make_doc("plain/" + "+".join(combo), features=combo)))
    return scs
