"""C20 — fitting: losses measure discrepancy; fits are honest and spare the input (DESIGN.md, C20)."""
from __future__ import annotations

import numpy as np
import pandas as pd
import z3

from symlift import core as S
from symlift.core import SymReal
from vf.common import Scenario, as_term
from vf.flow import FlowModel, StubSPI
from vf.props.c04 import MODS

LEVEL = "model_checking"
META = {
    "bounds": "loss laws on vectors of length 1-2 (quick) / 3 (thorough), both argument orders; fit.time_course / steady_state / protocol_time_course with "
    "LocalScipyMinimizer on a 1-variable decay model, data at 2 time points, p0 over parameters and/or initial values in both key orders, with and "
    "without y0, unscaled residuals (and scaled ones where pandas' statistics accept object columns); minimiser stub evaluates the start point and one "
    "symbolic candidate inside the bounds",
    "stubs": ["scipy.optimize.minimize -> evaluates the objective at x0 and at one symbolic candidate within the bounds, returns the better one with fun == f(x) "
              "(scipy's contract), or success=False", "scipy.integrate.solve_ivp/ode -> uninterpreted flow",
              "np/pd/float module globals of mxlpy.fit.*, minimizers._scipy, model, simulator, simulation rebound to proxies"],
    "outside": "the 'not rewarded for size' law of mean_squared_logarithmic for vectors longer than 1 (z3 unknown); that scipy's optimisers descend; global minimisers; ensemble / carousel routines and joint_protocol_time_course / joint_mixed (joint_time_course and joint_steady_state are covered, unscaled: the standard-scaled joint objective took z3 250 s and one unknown in a probe)",
    "assumptions_list": ["log is monotone (axiom instances added per pair of applications)", "loss domains: values positive where a loss divides or takes logarithms", "real arithmetic"],
}

LOSSES = ["mean", "mean_squared", "rmse", "mae", "mean_absolute_percentage", "mean_squared_logarithmic", "cosine_similarity"]


def log_monotone_axioms(terms):
    apps = {}
    stack = list(terms)
    seen = set()
    while stack:
        a = stack.pop()
        if a.get_id() in seen:
            continue
        seen.add(a.get_id())
        if z3.is_app(a):
            if a.decl().name() == "uf_log" and a.num_args() == 1:
                apps[a.get_id()] = a
            stack.extend(a.children())
    apps = list(apps.values())
    ax = []
    for i, a in enumerate(apps):
        for b in apps[i + 1:]:
            x, y = a.arg(0), b.arg(0)
            ax.append(z3.Implies(x <= y, a <= b))
            ax.append(z3.Implies(y <= x, b <= a))
            ax.append(z3.Implies(x == y, a == b))
    return ax


class Law(Scenario):
    modules = ["mxlpy.fit.losses"]

    def __init__(self, loss, n, law, swapped):
        self.loss, self.n, self.law, self.swapped = loss, n, law, swapped
        self.key = f"C20/law/{loss}/n{n}/{law}/{'data-first' if swapped else 'prediction-first'}"

    def run(self, ctx):
        from mxlpy.fit import losses

        fn = getattr(losses, self.loss)
        dt = object if ctx.symbolic else float
        data = [ctx.real(f"d{i}") for i in range(self.n)]
        pred = [ctx.real(f"q{i}") for i in range(self.n)]
        positive = self.loss in ("mean_absolute_percentage", "mean_squared_logarithmic")
        for v in data + pred:
            if positive:
                ctx.assume(v > 0)

        def L(p, t):
            ps, ts = pd.Series(p, dtype=dt), pd.Series(t, dtype=dt)
            return fn(ts, ps) if self.swapped else fn(ps, ts)

        with ctx.impl(f"losses.{self.loss}"):
            at_data = L(data, data)
            at_pred = L(pred, data)
        if self.law == "minimal_at_data":
            if ctx.symbolic:
                for ax in log_monotone_axioms([as_term(at_data), as_term(at_pred)]):
                    ctx.assume(ax)
            ctx.true("the loss is smallest when the prediction reproduces the data", at_data <= at_pred)
        else:
            lam = ctx.real("lam")
            ctx.assume(lam > 1)
            for d, q in zip(data, pred):
                ctx.assume(d >= 0)
                ctx.assume(q >= d)
                ctx.assume(q > 0)
            with ctx.impl(f"losses.{self.loss} (scaled prediction)"):
                bigger = L([lam * q for q in pred], data)
            if ctx.symbolic:
                for ax in log_monotone_axioms([as_term(bigger), as_term(at_pred)]):
                    ctx.assume(ax)
            ctx.true("a prediction is not rewarded merely for being larger", bigger >= at_pred)


def _stat_fold(obj, kind):
    """mean / sample standard deviation of a pandas object holding symbolic scalars (column-wise for frames)."""
    from symlift.proxies import sym_sqrt

    def one(vals):
        vals = list(vals)
        n = len(vals)
        m = 0.0
        for v in vals:
            m = m + v
        m = m / n
        if kind == "mean":
            return m
        ss = 0.0
        for v in vals:
            ss = ss + (v - m) * (v - m)
        return sym_sqrt(ss / (n - 1))

    if isinstance(obj, pd.DataFrame):
        return pd.Series({c: one(obj[c]) for c in obj.columns}, dtype=object)
    return one(list(obj))


class SymFrame(pd.DataFrame):
    """DataFrame whose mean()/std() fold symbolically (pandas' nanops need float columns)."""

    @property
    def _constructor(self):
        return SymFrame

    def mean(self, *a, **kw):
        return _stat_fold(self, "mean")

    def std(self, *a, **kw):
        return _stat_fold(self, "std")


class SymSeries(pd.Series):
    """Series whose mean()/std() fold symbolically (one observable per entry; std of a single entry is NaN as in pandas)."""

    @property
    def _constructor(self):
        return SymSeries

    def mean(self, *a, **kw):
        return _stat_fold(list(self), "mean") if len(self) else float("nan")

    def std(self, *a, **kw):
        return _stat_fold(list(self), "std") if len(self) > 1 else float("nan")


def guarded_scale(std):
    """The scale of the standard scaling: a spread that is zero or undefined (one observable, a constant column) is replaced by 1."""
    def one(v):
        if isinstance(v, float) and v != v:
            return 1.0
        return v if bool(v > 0) else 1.0

    if isinstance(std, pd.Series):
        return pd.Series({c: one(std[c]) for c in std.index}, dtype=object)
    return one(std)


class _OptRes(dict):
    __getattr__ = dict.get


class FitRun(Scenario):
    modules = [*MODS, "mxlpy", "mxlpy.fit.routines", "mxlpy.fit.abstract", "mxlpy.fit.losses", "mxlpy.minimizers._scipy"]
    float_shim = ["mxlpy.model", "mxlpy.simulator"]
    isinstance_shim = ["mxlpy.simulation"]
    max_paths = 2000

    def __init__(self, kind, p0_keys, with_y0, scaled, fail=False, loss="rmse", model="decay"):
        self.kind, self.p0_keys, self.with_y0, self.scaled, self.fail, self.loss = kind, tuple(p0_keys), with_y0, scaled, fail, loss
        self.model = model  # "decay" (one variable) | "moiety" (closed a <-> b: the steady state depends on the initial amounts)
        self.key = (f"C20/fit/{kind}/p0-{'+'.join(p0_keys)}/{'y0' if with_y0 else 'no-y0'}/{'scaled' if scaled else 'unscaled'}/{loss}"
                    f"{'/fail' if fail else ''}{'' if model == 'decay' else '/' + model}")

    def run(self, ctx):
        import mxlpy.integrators.int_scipy as isc
        import mxlpy.minimizers._scipy as msc

        fm = FlowModel(self.model)
        saved = (isc.spi, msc.minimize)
        isc.spi = StubSPI(fm, ctx.symbolic)
        evals = []

        def minimize(fun, x0, bounds=None, method=None, tol=None, **kw):
            x0 = list(x0)
            f0 = fun(np.array(x0, dtype=object if ctx.symbolic else float))
            x1 = [ctx.real(f"cand_{i}") for i in range(len(x0))]
            for v, (lo, hi) in zip(x1, bounds or [(None, None)] * len(x1)):
                if lo is not None:
                    ctx.assume(v >= lo)
                if hi is not None:
                    ctx.assume(v <= hi)
            f1 = fun(np.array(x1, dtype=object if ctx.symbolic else float))
            # which name each vector position stands for is the wrapper's business: read it from the closure it built
            order = None
            for c_ in getattr(fun, "__closure__", None) or ():
                try:
                    v_ = c_.cell_contents
                except ValueError:
                    continue
                if isinstance(v_, list) and len(v_) == len(x0) and all(isinstance(i_, str) for i_ in v_):
                    order = list(v_)
            evals.extend([(x0, f0, order), (x1, f1, order)])
            if self.fail:
                return _OptRes(success=False, message="stub: no convergence", x=x0, fun=f0)
            if bool(f1 < f0):
                return _OptRes(success=True, x=np.array(x1, dtype=object if ctx.symbolic else float), fun=f1, message="ok")
            return _OptRes(success=True, x=np.array(x0, dtype=object if ctx.symbolic else float), fun=f0, message="ok")

        msc.minimize = minimize
        try:
            self._run(ctx, fm, evals)
        finally:
            isc.spi, msc.minimize = saved

    def _run(self, ctx, fm, evals):
        from mxlpy import fit, make_protocol
        from mxlpy.fit import losses
        from mxlpy.minimizers import LocalScipyMinimizer
        from mxlpy.types import FitFailure

        sym = ctx.symbolic
        dt = object if sym else float
        m = fm.build(ctx)
        pv_before = dict(m.get_parameter_values())
        ic_before = dict(m.get_initial_conditions())
        raw_before = ({k: v.value for k, v in m.get_raw_parameters().items()}, {k: v.initial_value for k, v in m.get_raw_variables().items()})
        p0 = {k: ctx.real(f"start_{k}") for k in self.p0_keys}
        vnames = m.get_variable_names()
        y0 = {vnames[0]: ctx.real("y0_" + vnames[0])} if self.with_y0 else None
        loss_fn = getattr(losses, self.loss)
        tps = [0.5, 1.0]
        if self.kind == "tc":
            data = (SymFrame if sym and self.scaled else pd.DataFrame)({"x": [ctx.real("obs0"), ctx.real("obs1")]}, index=tps, dtype=dt)
        elif self.kind == "ss":
            data = (SymSeries if sym and self.scaled else pd.Series)({vnames[0]: ctx.real("obs0")}, dtype=dt)  # fluxes (k * x) would make the comparison of two losses non-linear
        else:
            data = pd.DataFrame({"x": [ctx.real("obs0"), ctx.real("obs1")]}, index=tps, dtype=dt)
            protocol = make_protocol([(0.5, {"k": ctx.real("st0")}), (0.5, {"k": ctx.real("st1")})])
        kw = dict(p0=dict(p0), data=data, minimizer=LocalScipyMinimizer(), y0=None if y0 is None else dict(y0), loss_fn=loss_fn,
                  standard_scale=self.scaled, bounds={k: (0.125, 8.0) for k in p0})
        with ctx.impl("fit"):
            if self.kind == "tc":
                res = fit.time_course(m, **kw)
            elif self.kind == "ss":
                res = fit.steady_state(m, **kw)
            else:
                res = fit.protocol_time_course(m, protocol=protocol, **kw)
        # the caller's model is left unchanged (copying is the default)
        pv_after, ic_after = dict(m.get_parameter_values()), dict(m.get_initial_conditions())
        same = lambda a, b: z3.eq(z3.simplify(as_term(a)), z3.simplify(as_term(b))) if sym else a == b  # noqa: E731
        ctx.true("with copying enabled the caller's parameter values are unchanged", all(same(pv_after[k], pv_before[k]) for k in pv_before),
                 info=str({k: (str(pv_before[k]), str(pv_after[k])) for k in pv_before})[:200])
        ctx.true("with copying enabled the caller's initial values are unchanged", all(same(ic_after[k], ic_before[k]) for k in ic_before),
                 info=str({k: (str(ic_before[k]), str(ic_after[k])) for k in ic_before})[:200])
        raw_after = ({k: v.value for k, v in m.get_raw_parameters().items()}, {k: v.initial_value for k, v in m.get_raw_variables().items()})
        ctx.true("with copying enabled the caller's declared values are unchanged",
                 all(same(raw_after[i][k], raw_before[i][k]) for i in (0, 1) for k in raw_before[i]),
                 info=str({k: (str(raw_before[i][k]), str(raw_after[i][k])) for i in (0, 1) for k in raw_before[i]})[:200])
        if self.fail:
            ctx.true("a failed minimisation is returned as a failure value", isinstance(res.value, FitFailure), info=repr(res.value)[:100])
            return
        ctx.true("fit returns a result", not isinstance(res.value, Exception), info=repr(res.value)[:100])
        if isinstance(res.value, Exception):
            return
        fitres = res.value

        def oracle_loss(pars):
            if self.model == "moiety":
                p = {k_: pars.get(k_, pv_before[k_]) for k_ in sorted(pv_before)}
                start = [pars[v_] if v_ in pars else (y0[v_] if y0 and v_ in y0 else ic_before[v_]) for v_ in vnames]
                ys = fm.flow(p, start, 0.0, 100.0, sym)
                return loss_fn(data, pd.Series({vnames[0]: ys[0]}, dtype=dt))
            p = {"k": pars.get("k", pv_before["k"])}
            x0 = pars["x"] if "x" in pars else (y0["x"] if y0 else ic_before["x"])
            if self.kind == "tc":
                pred = pd.DataFrame({"x": [fm.flow(p, [x0], 0.0, t, sym)[0] for t in tps]}, index=tps, dtype=dt)
            elif self.kind == "ss":
                xs = fm.flow(p, [x0], 0.0, 100.0, sym)[0]
                pred = pd.Series({"x": xs}, dtype=dt)
            else:
                a = fm.flow({"k": ctx.real("st0")}, [x0], 0.0, 0.5, sym)
                b = fm.flow({"k": ctx.real("st1")}, a, 0.5, 1.0, sym)
                pred = pd.DataFrame({"x": [a[0], b[0]]}, index=tps, dtype=dt)
            if self.scaled:
                mean, std = data.mean(), guarded_scale(data.std())
                return loss_fn((data - mean) / std, (pred - mean) / std)
            return loss_fn(data, pred)

        ctx.true("reported parameters carry the names of p0", set(fitres.best_pars) == set(p0), info=str(list(fitres.best_pars)))
        # the model handed back with the fit holds the reported values (not those of whatever candidate was evaluated last)
        with ctx.impl("the fitted model"):
            fm_p = fitres.model.get_parameter_values()
            fm_v = {k_: v_.initial_value for k_, v_ in fitres.model.get_raw_variables().items()}
        for k_, v_ in dict(fitres.best_pars).items():
            if k_ in fm_p:
                ctx.eq(f"the returned model holds the reported value of {k_}", fm_p[k_], v_)
            elif k_ in fm_v:
                ctx.eq(f"the returned model holds the reported value of {k_}", fm_v[k_], v_)
        with ctx.impl("oracle loss"):
            recomputed = oracle_loss(dict(fitres.best_pars))
            at_start = oracle_loss(dict(p0))
        ctx.eq("the reported loss equals the loss recomputed at the reported parameters", fitres.loss, recomputed)
        ctx.true("the reported loss is not worse than the starting point's", fitres.loss <= at_start)
        # each residual evaluation = loss between the data and the prediction at that candidate
        for j, (x, f, order) in enumerate(evals[:2]):
            with ctx.impl("oracle loss at candidate"):
                exp = oracle_loss(dict(zip(order if order is not None else p0, x)))
            ctx.eq(f"residual at evaluation {j} = loss(data, prediction at the candidate values)", f, exp)


class JointRun(FitRun):
    """joint_time_course / joint_steady_state over two models with their own data: the objective is the sum of the members' losses."""

    def __init__(self, kind, p0_keys, own_loss=False, own_y0=False, global_y0=False, scaled=False):
        FitRun.__init__(self, kind, p0_keys, global_y0, scaled)
        self.own_loss, self.own_y0 = own_loss, own_y0
        self.key = (f"C20/joint/{kind}/p0-{'+'.join(p0_keys)}/{'y0' if global_y0 else 'no-y0'}{'/member-y0' if own_y0 else ''}"
                    f"{'/member-loss' if own_loss else ''}/{'scaled' if scaled else 'unscaled'}")

    def run(self, ctx):
        import mxlpy.fit.routines as fr
        from vf.props.c09 import PebbleStub

        saved = fr.pebble
        stub = PebbleStub(ctx)
        stub.explore = False  # every member runs on its own pickled copy; the order of two independent tasks is C09's subject
        fr.pebble = stub
        try:
            FitRun.run(self, ctx)
        finally:
            fr.pebble = saved

    def _run(self, ctx, fm, evals):
        from mxlpy import fit
        from mxlpy.fit import losses
        from mxlpy.minimizers import LocalScipyMinimizer

        sym = ctx.symbolic
        dt = object if sym else float
        mA = fm.build(ctx)
        mB = fm.build(ctx)
        mB.update_parameter("k", ctx.real("p_kB"))
        mB.update_variable("x", ctx.real("i_xB"))
        models = [mA, mB]
        before = [(dict(m.get_parameter_values()), dict(m.get_initial_conditions())) for m in models]
        p0 = {k: ctx.real(f"start_{k}") for k in self.p0_keys}
        tps = [0.5, 1.0]
        frame = SymFrame if sym and self.scaled else pd.DataFrame
        if self.kind == "tc":
            datas = [frame({"x": [ctx.real(f"obs{t}0"), ctx.real(f"obs{t}1")]}, index=tps, dtype=dt) for t in "AB"]
        else:
            datas = [pd.Series({"x": ctx.real(f"obs{t}0")}, dtype=dt) for t in "AB"]
        y0_global = {"x": ctx.real("y0_x")} if self.with_y0 else None
        y0_B = {"x": ctx.real("y0_xB")} if self.own_y0 else None
        loss_global = losses.rmse
        loss_B = losses.mae if self.own_loss else None
        settings = [fit.FitSettings(model=mA, data=datas[0]), fit.FitSettings(model=mB, data=datas[1], y0=y0_B, loss_fn=loss_B)]
        fn = fit.joint_time_course if self.kind == "tc" else fit.joint_steady_state
        with ctx.impl("joint fit"):
            res = fn(settings, p0=dict(p0), minimizer=LocalScipyMinimizer(), y0=None if y0_global is None else dict(y0_global), loss_fn=loss_global,
                     bounds={k: (0.125, 8.0) for k in p0}, standard_scale=self.scaled)
        same = lambda a, b: z3.eq(z3.simplify(as_term(a)), z3.simplify(as_term(b))) if sym else a == b  # noqa: E731
        for tag, m, (pv0, ic0) in zip("AB", models, before):
            pv1, ic1 = dict(m.get_parameter_values()), dict(m.get_initial_conditions())
            ctx.true(f"with copying enabled member {tag}'s parameter and initial values are unchanged",
                     all(same(pv1[k], pv0[k]) for k in pv0) and all(same(ic1[k], ic0[k]) for k in ic0))
        ctx.true("joint fit returns a result", not isinstance(res.value, Exception), info=repr(res.value)[:100])
        if isinstance(res.value, Exception):
            return
        fitres = res.value

        def member_loss(i, pars):
            pv0, ic0 = before[i]
            y0 = (y0_B if i == 1 and y0_B is not None else y0_global)
            p = {"k": pars.get("k", pv0["k"])}
            x0 = pars["x"] if "x" in pars else (y0["x"] if y0 else ic0["x"])
            data = datas[i]
            lf = loss_B if i == 1 and loss_B is not None else loss_global
            if self.kind == "tc":
                pred = pd.DataFrame({"x": [fm.flow(p, [x0], 0.0, t, sym)[0] for t in tps]}, index=tps, dtype=dt)
            else:
                pred = pd.Series({"x": fm.flow(p, [x0], 0.0, 100.0, sym)[0]}, dtype=dt)
            if self.scaled:
                mean, std = data.mean(), data.std()
                return lf((data - mean) / std, (pred - mean) / std)
            return lf(data, pred)

        def oracle_loss(pars):
            return member_loss(0, pars) + member_loss(1, pars)

        ctx.true("reported parameters carry the names of p0", set(fitres.best_pars) == set(p0), info=str(list(fitres.best_pars)))
        with ctx.impl("oracle loss"):
            recomputed = oracle_loss(dict(fitres.best_pars))
            at_start = oracle_loss(dict(p0))
        ctx.eq("the reported loss equals the sum of the members' losses recomputed at the reported parameters", fitres.loss, recomputed)
        ctx.true("the reported loss is not worse than the starting point's", fitres.loss <= at_start)
        for j, (x, f, order) in enumerate(evals[:2]):
            with ctx.impl("oracle loss at candidate"):
                exp = oracle_loss(dict(zip(order if order is not None else p0, x)))
            ctx.eq(f"joint residual at evaluation {j} = sum over members of loss(data, prediction at the candidate values)", f, exp)


def scenarios(tier, seed):
    scs = []
    ns = (1, 2) if tier == "quick" else (1, 2, 3)
    for loss in LOSSES:
        for n in ns:
            for law in ("minimal_at_data", "not_rewarded_for_size"):
                for swapped in (False, True):
                    if loss in ("mean", "cosine_similarity") and not (n == 2):
                        continue  # minimal scenarios for the two open findings
                    if loss == "mean_squared_logarithmic" and law == "not_rewarded_for_size" and n > 1:
                        continue  # sums of squared log differences: z3 answered unknown under load in a probe (stated in META.outside)
                    scs.append(Law(loss, n, law, swapped))
    for kind in ("tc", "ss", "ptc"):
        key_sets = [("k",), ("x", "k"), ("k", "x"), ("x",)] if kind != "ptc" else [("x",)]
        for keys in key_sets:
            for with_y0 in (False, True):
                if with_y0 and "x" in keys and tier == "quick":
                    continue
                scs.append(FitRun(kind, keys, with_y0, False))
        scs.append(FitRun(kind, key_sets[0], False, False, fail=True))
        scs.append(FitRun(kind, key_sets[-1], True, False, loss="mean_squared"))
    # steady-state fits of a model whose steady state depends on the initial amounts: every residual evaluation must start from
    # the candidate's own initial amounts, whatever was evaluated before
    scs.append(FitRun("ss", ("a",), False, False, model="moiety"))
    scs.append(FitRun("ss", ("a", "kf"), False, False, loss="mean_squared", model="moiety"))
    scs.append(FitRun("ss", ("kr",), True, False, model="moiety"))
    # the default: standard-scaled residuals (time course; data statistics folded symbolically)
    scs.append(FitRun("tc", ("k",), False, True, loss="mean_squared"))
    scs.append(FitRun("tc", ("x", "k"), False, True, loss="mean_squared"))
    scs.append(FitRun("tc", ("k",), True, True, loss="mae"))
    # the default scaling with a single observable (its spread is undefined): the fit still measures the discrepancy
    scs.append(FitRun("ss", ("k",), False, True, loss="mean_squared"))
    scs.append(FitRun("ss", ("x",), False, True))
    # joint fits: two models with their own data, initial values and (optionally) loss; the objective is the sum of the members' losses
    for kind in ("tc", "ss"):
        scs.append(JointRun(kind, ("k",)))
        scs.append(JointRun(kind, ("x", "k"), own_loss=True))
        scs.append(JointRun(kind, ("k",), own_y0=True, global_y0=True))
        if tier != "quick":
            scs.append(JointRun(kind, ("k", "x"), own_loss=True, own_y0=True))
            scs.append(JointRun(kind, ("x",), global_y0=True))
    return scs
