"""C16 — the linear label model tracks the isotopomer model's positional enrichment (DESIGN.md, C16)."""
from __future__ import annotations

import itertools as it

import pandas as pd

from vf.common import Scenario
from vf.props.c05 import ma0, ma1, ma2

LEVEL = "model_checking"
META = {
    "bounds": "base networks at a metabolic steady state by construction: linear chain ->A->B-> (2 or 3 label positions), merge ->A,->B, A+B->C-> "
    "and split ->C->A+B, A->, B->; every map of the mapped inner reaction over the substrate positions (all permutations incl. both 3-cycles, merges); "
    "pool sizes, steady-state flux, isotopomer distribution and external enrichment symbolic",
    "stubs": ["pd/np/float module globals of mxlpy.model, mxlpy.label_map, mxlpy.linear_label_map rebound to proxies"],
    "outside": "networks with more than one mapped inner reaction between labelled pools, homodimer substrates, non-mass-action kinetics",
    "assumptions_list": ["pool sizes and fluxes positive", "rate constants defined as flux / product of substrate pools (steady state by construction)", "real arithmetic"],
}


NETS = {
    # inner reaction "v1" carries the map under test; influx/efflux maps are identities
    "chain2": dict(pools={"A": 2, "B": 2}, inner=({"A": -1, "B": 1}, ["A"]), inn=["A"], out=["B"]),
    "chain3": dict(pools={"A": 3, "B": 3}, inner=({"A": -1, "B": 1}, ["A"]), inn=["A"], out=["B"]),
    "merge": dict(pools={"A": 1, "B": 1, "C": 2}, inner=({"A": -1, "B": -1, "C": 1}, ["A", "B"]), inn=["A", "B"], out=["C"]),
    "split": dict(pools={"C": 2, "A": 1, "B": 1}, inner=({"C": -1, "A": 1, "B": 1}, ["C"]), inn=["C"], out=["A", "B"]),
    "exchange": dict(pools={"A": 1, "B": 1, "C": 1, "D": 1}, inner=({"A": -1, "B": -1, "C": 1, "D": 1}, ["A", "B"]), inn=["A", "B"], out=["C", "D"]),
    "split_dimer": dict(pools={"F": 4, "G": 2}, inner=({"F": -1, "G": 2}, ["F"]), inn=["F"], out=["G"], out_flux={"G": 2}, involutive=True),
    "two_steps": dict(pools={"A": 2, "B": 2, "C": 2}, inner=({"A": -1, "B": 1}, ["A"]), inner2=({"B": -1, "C": 1}, ["B"], (1, 0)), inn=["A"], out=["C"]),
    # species declared in non-alphabetical order with asymmetric label counts (involutive maps only, see the open finding)
    "merge_qp": dict(pools={"Q": 2, "P": 1, "R": 3}, inner=({"Q": -1, "P": -1, "R": 1}, ["Q", "P"]), inn=["Q", "P"], out=["R"], involutive=True),
    # label_variables declares the species in another order than the reaction's stoichiometry lists them (the map refers to the latter)
    "merge_pq_rev": dict(pools={"P": 1, "Q": 2, "R": 3}, inner=({"Q": -1, "P": -1, "R": 1}, ["Q", "P"]), inn=["Q", "P"], out=["R"], involutive=True),
    "split_st_rev": dict(pools={"S": 1, "T": 2, "R": 3}, inner=({"R": -1, "T": 1, "S": 1}, ["R"]), inn=["R"], out=["T", "S"], involutive=True),
    "split_ts": dict(pools={"R": 3, "T": 2, "S": 1}, inner=({"R": -1, "T": 1, "S": 1}, ["R"]), inn=["R"], out=["T", "S"], involutive=True),
}


class Lin(Scenario):
    modules = ["mxlpy.model", "mxlpy.label_map", "mxlpy.linear_label_map"]
    float_shim = ["mxlpy.model"]
    timeout_ms = 60000

    def __init__(self, net, lmap, mode="track"):
        self.net = net
        self.lmap = tuple(lmap)
        self.mode = mode
        self.key = f"C16/{net}/map{''.join(map(str, lmap))}/{mode}"

    def run(self, ctx):
        from mxlpy import LabelMapper, LinearLabelMapper, Model

        spec = NETS[self.net]
        pools = spec["pools"]
        v = ctx.real("v")
        ctx.assume(v > 0)
        c = {p: ctx.real(f"c_{p}") for p in pools}
        for p in pools:
            ctx.assume(c[p] > 0)
        st, sub_args = spec["inner"]
        # base model at steady state by construction
        base = Model()
        for p in pools:
            base.add_variable(p, c[p])
        prod = 1
        for s_ in sub_args:
            prod = prod * c[s_]
        base.add_parameter("k1", v / prod)
        maps = {}
        fluxes = {}
        for p in spec["inn"]:
            base.add_parameter(f"kin_{p}", v)
            base.add_reaction(f"vin_{p}", ma0, args=[f"kin_{p}"], stoichiometry={p: 1})
            maps[f"vin_{p}"] = list(range(pools[p]))
            fluxes[f"vin_{p}"] = v
        base.add_reaction("v1", ma1 if len(sub_args) == 1 else ma2, args=[*sub_args, "k1"], stoichiometry=st)
        maps["v1"] = list(self.lmap)
        fluxes["v1"] = v
        if "inner2" in spec:  # a second mapped reaction downstream, with a fixed swap
            st2, sub2, map2 = spec["inner2"]
            base.add_parameter("k2", v / c[sub2[0]])
            base.add_reaction("v2", ma1, args=[*sub2, "k2"], stoichiometry=st2)
            maps["v2"] = list(map2)
            fluxes["v2"] = v
        for p in spec["out"]:
            mult = spec.get("out_flux", {}).get(p, 1)  # the efflux balances the net production of the pool
            base.add_parameter(f"kout_{p}", mult * v / c[p])
            base.add_reaction(f"vout_{p}", ma1, args=[p, f"kout_{p}"], stoichiometry={p: -1})
            maps[f"vout_{p}"] = list(range(pools[p]))
            fluxes[f"vout_{p}"] = mult * v
        ext = ctx.real("ext") if self.mode in ("uniform", "uniform_after_update") else 1.0
        with ctx.impl("LabelMapper.build_model"):
            iso_mapper = LabelMapper(base, label_variables=dict(pools), label_maps={k: list(m) for k, m in maps.items()})
            iso = iso_mapper.build_model()
        with ctx.impl("LinearLabelMapper.build_model"):
            lin = LinearLabelMapper(base, label_variables=dict(pools), label_maps={k: list(m) for k, m in maps.items()}).build_model(
                concs=pd.Series(dict(c), dtype=object if ctx.symbolic else float),
                fluxes=pd.Series(fluxes, dtype=object if ctx.symbolic else float),
                external_label=0.0 if self.mode == "uniform_after_update" else ext,
            )
            if self.mode == "uniform_after_update":
                # the documented way to change the external enrichment of a built model
                lin.update_parameter("EXT", ext)
        lin_names = lin.get_variable_names()
        if self.mode in ("uniform", "uniform_after_update"):
            # uniform enrichment equal to the external pool is stationary for any external value
            with ctx.impl("linear rhs"):
                out = lin(0.0, [ext for _ in lin_names])
            for n, d in zip(lin_names, out):
                ctx.eq(f"uniform enrichment = external pool is stationary [{n}]", d, 0.0)
            return
        if self.mode == "nolabel":
            with ctx.impl("LinearLabelMapper.build_model(external_label=0)"):
                lin0 = LinearLabelMapper(base, label_variables=dict(pools), label_maps={k: list(m) for k, m in maps.items()}).build_model(
                    concs=pd.Series(dict(c), dtype=object if ctx.symbolic else float),
                    fluxes=pd.Series(fluxes, dtype=object if ctx.symbolic else float),
                    external_label=0.0,
                )
                ic = lin0.get_initial_conditions()
                out = lin0(0.0, [ic[n] for n in lin0.get_variable_names()])
            for n, d in zip(lin0.get_variable_names(), out):
                ctx.eq(f"no external and no initial label: none appears [{n}]", d, 0.0)
            return
        # isotopomer distribution consistent with the pool sizes
        iso_names = iso.get_variable_names()
        state = {}
        for p, nlab in pools.items():
            members = iso_mapper.get_isotopomer_of(p)
            rest = 0.0
            for mname in members[:-1]:
                state[mname] = ctx.real(f"s_{mname}")
                ctx.assume(state[mname] >= 0)
                rest = rest + state[mname]
            state[members[-1]] = c[p] - rest
            ctx.assume(state[members[-1]] >= 0)
        with ctx.impl("isotopomer rhs"):
            dx = dict(zip(iso_names, iso(0.0, [state[n] for n in iso_names])))
        enrich = {}
        denrich = {}
        for p, nlab in pools.items():
            for pos in range(nlab):
                with_bit = iso_mapper.get_isotopomers_of_at_position(p, pos)
                e_ = 0.0
                de = 0.0
                for mname in with_bit:
                    e_ = e_ + state[mname]
                    de = de + dx[mname]
                enrich[f"{p}__{pos}"] = e_ / c[p]
                denrich[f"{p}__{pos}"] = (de, c[p])
        with ctx.impl("linear rhs"):
            out = dict(zip(lin_names, lin(0.0, [enrich[n] for n in lin_names])))
        for n in lin_names:
            de, cp = denrich[n]  # compared with denominators cleared: (d/dt linear) * pool = summed isotopomer derivative
            ctx.eq(f"d/dt of linear label position {n} = d/dt of that position's enrichment in the isotopomer model", out[n] * cp, de)


def scenarios(tier, seed):
    scs = []
    for net, spec in NETS.items():
        if net == "chain3" and tier == "quick":
            perms = [(0, 1, 2), (2, 1, 0), (1, 0, 2), (1, 2, 0), (2, 0, 1), (0, 2, 1)]
        else:
            st, _ = spec["inner"]
            n = sum(spec["pools"][p] * -k for p, k in st.items() if k < 0)
            perms = list(it.permutations(range(n)))
        if spec.get("involutive"):
            perms = [p_ for p_ in perms if all(p_[p_[i]] == i for i in range(len(p_)))]
        for m in perms:
            scs.append(Lin(net, m))
        scs.append(Lin(net, perms[0], mode="uniform"))
        scs.append(Lin(net, perms[-1], mode="uniform"))
        scs.append(Lin(net, perms[0], mode="nolabel"))
        scs.append(Lin(net, perms[-1], mode="uniform_after_update"))
    return scs
