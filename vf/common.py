"""Scenario runner: symbolic exploration, obligation discharge, validation, replay, evidence."""
from __future__ import annotations

import fnmatch
import json
import math
import multiprocessing as mp
import os
import sys
import time
import traceback
from fractions import Fraction
from pathlib import Path as FsPath

import z3

from symlift import core as S
from symlift import proxies as P
from symlift.core import SymBool, SymReal

VERIF = FsPath(__file__).resolve().parent.parent
REPO_SRC = "/repo/src/mxlpy"
MARGIN = Fraction(1, 1000)
CONCRETE_TOL = 1e-6


class StopScenario(BaseException):
    """End the current path normally (after ctx.fail)."""


class Inadmissible(BaseException):
    """Concrete run left the assumed domain."""


class Ob:
    __slots__ = ("label", "impl", "oracle", "cond", "kind", "info")

    def __init__(self, label, impl=None, oracle=None, cond=None, kind="eq", info=None):
        self.label = label
        self.impl = impl
        self.oracle = oracle
        self.cond = cond
        self.kind = kind
        self.info = info


class Ctx:
    """Value factory + obligation sink shared by the symbolic and the concrete mode."""

    def __init__(self, symbolic, values=None, choices=None, flows=None):
        self.symbolic = symbolic
        self.values = values or {}
        self.inputs = {}  # name -> SymReal | float
        self.obs = []
        self._choices = list(choices or [])
        self._cpos = 0
        self.choices_made = []
        self.notes = []
        self.flows = flows or {}
        self.state = {}

    # -- inputs
    def real(self, name, default=1.0):
        if name in self.inputs:
            return self.inputs[name]
        if self.symbolic:
            v = S.real(name)
        else:
            v = float(self.values.get(name, default))
        self.inputs[name] = v
        return v

    def boolean(self, name):
        """A z3 Bool input (symbolic) or a constant z3 BoolVal taken from the witness (concrete)."""
        if name in self.inputs:
            return self.inputs[name].t
        if self.symbolic:
            b = z3.Bool(name)
        else:
            b = z3.BoolVal(bool(self.values.get(name, False)))
        self.inputs[name] = SymBool(b)
        return b

    def reals(self, names):
        return [self.real(n) for n in names]

    def choose(self, n, label=""):
        if self.symbolic:
            c = S.engine().choose(n, label)
        else:
            if self._cpos < len(self._choices):
                c = self._choices[self._cpos][1]
                self._cpos += 1
            else:
                c = 0
        self.choices_made.append((label, c))
        return c

    def assume(self, cond):
        if isinstance(cond, SymBool):
            S.engine().assume(cond.t)
        elif isinstance(cond, z3.BoolRef):
            S.engine().assume(cond)
        elif not cond:
            if self.symbolic:
                raise S.PathAbort()
            raise Inadmissible()

    # -- obligations
    def eq(self, label, impl, oracle, info=None):
        self.obs.append(Ob(label, impl=impl, oracle=oracle, kind="eq", info=info))

    def true(self, label, cond, info=None):
        self.obs.append(Ob(label, cond=cond, kind="true", info=info))

    def fail(self, label, info=None):
        self.obs.append(Ob(label, cond=False, kind="true", info=info))
        raise StopScenario()

    def note(self, s):
        self.notes.append(s)

    def impl(self, label):
        return _ImplBlock(self, label)


class _ImplBlock:
    """`with ctx.impl("label"):` — an exception of the implementation is a failed obligation."""

    def __init__(self, ctx, label):
        self.ctx = ctx
        self.label = label

    def __enter__(self):
        return self

    def __exit__(self, et, ev, tb):
        if et is None:
            return False
        if not issubclass(et, Exception) or issubclass(et, S.LiftError):
            return False
        self.ctx.obs.append(
            Ob(f"{self.label}: raised {et.__name__}", cond=False, kind="true", info=str(ev)[:200])
        )
        raise StopScenario() from None


class Scenario:
    """Base class. Subclasses set .key, .modules (to lift) and implement run(ctx)."""

    key = "?"
    modules = ()
    float_shim = ()
    isinstance_shim = ()
    max_paths = 4000
    max_decisions = 400
    max_seconds = 1500  # wall-clock budget of one scenario's exploration; exceeding it is a reported bound hit (exit 2), never a pass
    timeout_ms = 30000
    validate = True
    margin = MARGIN  # a difference that is always below margin*(1+|oracle|) is a rounding matter, not a violation
    concrete_tol = CONCRETE_TOL  # tolerance of the float replay

    def run(self, ctx):
        raise NotImplementedError

    def extra_install(self):
        return ()

    def describe(self):
        return self.key

    def setup_concrete(self):
        """Hook to install stubs needed to run the scenario on floats."""

    def teardown_concrete(self):
        pass


# ----------------------------------------------------------------------------------- helpers

def as_term(x):
    t = S.to_term(x)
    if t is None:
        raise S.LiftError(f"cannot lift {type(x).__name__}: {x!r}"[:200])
    return t


def _is_nan(x):
    try:
        return not isinstance(x, (SymReal, SymBool)) and isinstance(x, (float,)) and x != x or (
            type(x).__module__ == "numpy" and x != x
        )
    except Exception:  # noqa: BLE001
        return False


def fnum(x):
    if isinstance(x, Fraction):
        return float(x)
    try:
        return float(x)
    except Exception:
        return float("nan")


def close(a, b, tol=CONCRETE_TOL):
    a = fnum(a)
    b = fnum(b)
    if math.isnan(a) and math.isnan(b):
        return True
    if math.isnan(a) or math.isnan(b):
        return False
    if math.isinf(a) or math.isinf(b):
        return a == b
    return abs(a - b) <= tol * (1 + abs(b))


def _lift_modules(names):
    import importlib

    return [importlib.import_module(n) if isinstance(n, str) else n for n in names]


class lifted:
    def __init__(self, sc):
        self.sc = sc

    def __enter__(self):
        sc = self.sc
        P.install(
            _lift_modules(sc.modules),
            # every lifted mxlpy module gets the float shim: `float(norm)` or `isinstance(v, float)` may appear anywhere after a refactor
            float_shim=_lift_modules(list(dict.fromkeys([*sc.float_shim, *[m_ for m_ in sc.modules if str(m_).startswith("mxlpy")]]))),
            isinstance_shim=_lift_modules(sc.isinstance_shim),
            extra=sc.extra_install(),
        )

    def __exit__(self, *a):
        P.uninstall()
        return False


def run_concrete(sc, values, choices):
    """Run a scenario on plain floats, no numpy/pandas proxies. Returns (ctx, error|None)."""
    ctx = Ctx(False, values=values, choices=choices)
    prev = S.ENGINE
    S.ENGINE = None
    err = None
    sc.setup_concrete()
    try:
        try:
            sc.run(ctx)
        except StopScenario:
            pass
        except Inadmissible:
            err = "inadmissible"
        except ZeroDivisionError:
            err = "zerodiv"
        except Exception as e:  # noqa: BLE001
            err = "exception: " + "".join(traceback.format_exception_only(type(e), e)).strip()[:300]
            ctx.tb = traceback.format_exc()
    finally:
        sc.teardown_concrete()
        S.ENGINE = prev
    return ctx, err


def concrete_ob_failed(ob, tol=CONCRETE_TOL):
    if ob.kind == "true":
        c = ob.cond
        if isinstance(c, SymBool):
            c = c.t
        if isinstance(c, z3.ExprRef):
            return not z3.is_true(z3.simplify(c))
        return not bool(c)
    return not close(ob.impl, ob.oracle, tol)


def witness_of(model, inputs):
    out = {}
    for name, v in inputs.items():
        if isinstance(v, SymReal):
            fr = S.model_value(model, v.t)
            out[name] = float(fr) if fr is not None else 0.0
        elif isinstance(v, SymBool):
            out[name] = bool(z3.is_true(model.eval(v.t, model_completion=True)))
    return out


def _short(t, n=160):
    s = str(z3.simplify(t)) if isinstance(t, z3.ExprRef) else str(t)
    s = " ".join(s.split())
    return s if len(s) <= n else s[: n - 3] + "..."


# ----------------------------------------------------------------------------------- symbolic run

def run_scenario(sc, do_validate=True):
    """Explore all paths of one scenario; discharge obligations; validate; replay counterexamples."""
    t_start = time.time()
    eng = S.Engine(max_decisions=sc.max_decisions, max_paths=sc.max_paths, timeout_ms=sc.timeout_ms, max_seconds=sc.max_seconds)
    res = {
        "key": sc.key,
        "paths": 0,
        "obligations": 0,
        "discharged": 0,
        "within_margin": 0,
        "unknown": [],
        "violations": [],
        "validated": 0,
        "validation_skipped_uf": 0,
        "harness_errors": [],
        "samples": [],
        "bound_hit": None,
        "labels": set(),
    }

    def body():
        ctx = Ctx(True)
        try:
            sc.run(ctx)
        except StopScenario:
            pass
        return ctx

    try:
        with lifted(sc):
            paths = eng.explore(body, catch=(Exception,))
    except S.BoundHit as e:
        res["bound_hit"] = str(e)
        paths = []
    except S.SolverUnknown as e:
        res["unknown"].append({"label": "branch", "what": str(e)})
        paths = []
    except S.LiftError as e:
        res["harness_errors"].append("LiftError: " + str(e) + "\n" + traceback.format_exc()[-1500:])
        paths = []

    seen_viol = set()
    for path in paths:
        if path.exc is not None:
            tb = "".join(traceback.format_exception(type(path.exc), path.exc, path.exc.__traceback__))
            res["harness_errors"].append(f"escaped exception in {sc.key}: {tb[-2500:]}")
            continue
        ctx = path.value
        res["paths"] += 1
        for ob in ctx.obs:
            res["obligations"] += 1
            res["labels"].add(ob.label)
            try:
                if ob.kind == "eq" and (_is_nan(ob.impl) or _is_nan(ob.oracle)):
                    ob.kind = "true"
                    ob.cond = _is_nan(ob.impl) and _is_nan(ob.oracle)
                if ob.kind == "eq":
                    it, ot = as_term(ob.impl), as_term(ob.oracle)
                    claim = it == ot
                else:
                    c = ob.cond
                    if isinstance(c, SymBool):
                        claim = c.t
                    elif isinstance(c, z3.BoolRef):
                        claim = c
                    else:
                        claim = z3.BoolVal(bool(c))
            except S.LiftError as e:
                res["harness_errors"].append(f"{sc.key} {ob.label}: {e}")
                continue
            r, model = eng.check_valid(path, claim)
            if r == "unsat":
                res["discharged"] += 1
                if ob.kind == "true" and not any(s_.get("kind") == "true" for s_ in res["samples"]) and not isinstance(ob.cond, bool):
                    res["samples"].append(
                        {
                            "scenario": sc.key,
                            "kind": "true",
                            "obligation": ob.label,
                            "pc": [_short(c, 80) for c in path.pc[-4:]],
                            "claim": _short(claim, 200),
                            "verdict": "unsat (PC and not claim): holds on this path for all values",
                        }
                    )
                if ob.kind == "eq":
                    size = len(str(it))
                    cur = [s_ for s_ in res["samples"] if s_.get("kind") != "true"]
                    if not cur or size > cur[0].get("_size", 0):
                        res["samples"] = [s_ for s_ in res["samples"] if s_.get("kind") == "true"] + [
                            {
                                "scenario": sc.key,
                                "obligation": ob.label,
                                "pc": [_short(c, 80) for c in path.pc[-4:]],
                                "impl": _short(it, 240),
                                "oracle": _short(ot, 240),
                                "verdict": "unsat (PC and impl != oracle): equal on this path for all values",
                                "_size": size,
                            }
                        ]
                continue
            if r == "unknown":
                res["unknown"].append({"label": ob.label, "what": "obligation"})
                continue
            # sat: ask again with a separation margin for eq obligations
            r2 = None
            if ob.kind == "eq":
                diff = it - ot
                absd = z3.If(diff >= 0, diff, -diff)
                abso = z3.If(ot >= 0, ot, -ot)
                mq = z3.RealVal(f"{Fraction(sc.margin).numerator}/{Fraction(sc.margin).denominator}")
                r2, model2 = eng.check_valid(path, z3.Not(absd > mq * (1 + abso)))
                if r2 == "unsat":
                    res["within_margin"] += 1
                    res["discharged"] += 1
                    continue
                if r2 == "sat":
                    model = model2
            vkey = (ob.label,)
            if vkey in seen_viol:
                continue
            # prefer a generic witness (inputs in [1/2, 8], pairwise apart): uninterpreted flows and
            # degenerate values (0, equal points) otherwise make the float replay uninformative
            bad = z3.Not(claim) if ob.kind != "eq" else (absd > mq * (1 + abso) if r2 == "sat" else it != ot)
            ins = [v.t for v in ctx.inputs.values() if isinstance(v, SymReal)]
            rng = [z3.And(v >= z3.RealVal("1/2"), v <= 8) for v in ins]
            apart = [z3.Or(a - b >= z3.RealVal("1/8"), b - a >= z3.RealVal("1/8")) for i, a in enumerate(ins) for b in ins[i + 1:]]
            for hints in ((rng + apart, rng) if len(ins) <= 10 else (rng,)):
                rh, mh = eng.check_valid(path, z3.Not(bad), extra=hints, timeout_ms=4000)
                if rh == "sat":
                    model = mh
                    break
            wit = witness_of(model, ctx.inputs)
            choices = list(ctx.choices_made)
            cctx, err = run_concrete(sc, wit, choices)
            confirmed = False
            cimpl = coracle = None
            for cob in cctx.obs:
                if cob.label == ob.label and concrete_ob_failed(cob, sc.concrete_tol):
                    confirmed = True
                    cimpl, coracle = cob.impl, cob.oracle
                    break
            v = {
                "scenario": sc.key,
                "label": ob.label,
                "key": f"{sc.key}|{ob.label}",
                "witness": wit,
                "choices": choices,
                "confirmed": confirmed,
                "concrete_error": err,
                "impl": repr(cimpl)[:200],
                "oracle": repr(coracle)[:200],
                "info": ob.info,
                "pc": [_short(c, 100) for c in path.pc[:8]],
            }
            if ob.kind == "eq":
                v["impl_term"] = _short(it, 300)
                v["oracle_term"] = _short(ot, 300)
            seen_viol.add(vkey)
            res["violations"].append(v)
        # -- validation of the lifting layer on this path
        if do_validate and sc.validate and not any(S.term_has_uf(c) for c in path.pc):
            model = eng.path_model(path)
            if model is not None:
                wit = witness_of(model, ctx.inputs)
                cctx, err = run_concrete(sc, wit, list(ctx.choices_made))
                if err is None or err == "inadmissible":
                    cobs = {}
                    for cob in cctx.obs:
                        cobs.setdefault(cob.label, cob)
                    ok = True
                    compared = 0
                    for ob in ctx.obs:
                        if ob.kind == "true" and ob.label in cobs and isinstance(ob.cond, (SymBool, z3.BoolRef)):
                            # truth of a condition at the path's witness: lifted run vs the float run of the real code.
                            # A disagreement is only counted (a witness on the boundary of a strict inequality rounds either way).
                            ct = ob.cond.t if isinstance(ob.cond, SymBool) else ob.cond
                            if S.term_has_uf(ct):
                                continue
                            try:
                                mvb = z3.is_true(model.eval(ct, model_completion=True))
                                cvb = bool(cobs[ob.label].cond)
                            except Exception:  # noqa: BLE001
                                continue
                            if mvb == cvb:
                                compared += 1
                            else:
                                res["validation_true_mismatch"] = res.get("validation_true_mismatch", 0) + 1
                            continue
                        if ob.kind != "eq" or ob.label not in cobs:
                            continue
                        it = as_term(ob.impl)
                        if S.term_has_uf(it):
                            res["validation_skipped_uf"] += 1
                            continue
                        mv = S.model_value(model, it)
                        cv = cobs[ob.label].impl
                        if mv is None:
                            continue
                        compared += 1
                        if not close(mv, cv, 1e-6):
                            ok = False
                            res["harness_errors"].append(
                                f"lifting mismatch {sc.key} {ob.label}: lifted={float(mv)} real={cv!r} witness={wit}"
                            )
                    if ok and compared:
                        res["validated"] += 1
    res["queries"] = eng.queries
    res["unsat"] = eng.n_unsat
    res["sat"] = eng.n_sat
    res["n_unknown"] = eng.n_unknown
    res["solver_time_s"] = eng.solver_time
    res["branch_decisions"] = eng.branch_decisions
    res["assumed_nonzero"] = eng.assumed_nonzero
    res["cross"] = eng.cross
    for txt in eng.cross["disagree"]:
        res["harness_errors"].append(f"solver disagreement in {sc.key}: z3 unsat, cvc5 sat on\n{txt[:1500]}")
    res["wall_s"] = time.time() - t_start
    res["labels"] = sorted(res["labels"])
    return res


# ----------------------------------------------------------------------------------- parallel driver

_SCENARIOS = []
_FUNCS = set()


def _start_monitor():
    try:
        mon = sys.monitoring
        tid = 3
        try:
            mon.use_tool_id(tid, "vf")
        except ValueError:
            return

        def on_start(code, off):
            try:
                fn = code.co_filename
                if fn.startswith(REPO_SRC):
                    _FUNCS.add(fn[len("/repo/src/") :].replace("/", ".")[:-3] + ":" + code.co_qualname)
                return mon.DISABLE
            except Exception:  # noqa: BLE001  (interpreter shutdown)
                return None

        mon.register_callback(tid, mon.events.PY_START, on_start)
        mon.set_events(tid, mon.events.PY_START)
    except Exception:  # noqa: BLE001
        pass


def _worker(i):
    sc = _SCENARIOS[i]
    try:
        r = run_scenario(sc)
    except BaseException as e:  # noqa: BLE001
        r = {
            "key": sc.key,
            "paths": 0,
            "obligations": 0,
            "discharged": 0,
            "within_margin": 0,
            "unknown": [],
            "violations": [],
            "validated": 0,
            "validation_skipped_uf": 0,
            "harness_errors": [f"worker crashed on {sc.key}: {traceback.format_exc()[-3000:]}"],
            "samples": [],
            "bound_hit": None,
            "labels": [],
            "queries": 0,
            "unsat": 0,
            "sat": 0,
            "n_unknown": 0,
            "solver_time_s": 0.0,
            "branch_decisions": 0,
            "assumed_nonzero": 0,
            "wall_s": 0.0,
        }
    r["functions"] = sorted(_FUNCS)
    return r


def _init_worker():
    _start_monitor()


def run_all(scenarios, jobs=None):
    global _SCENARIOS
    _SCENARIOS = scenarios
    jobs = jobs or min(16, os.cpu_count() or 4)
    if os.environ.get("VF_JOBS"):
        jobs = int(os.environ["VF_JOBS"])
    if jobs <= 1 or len(scenarios) <= 1:
        _start_monitor()
        return [_worker(i) for i in range(len(scenarios))]
    ctx = mp.get_context("fork")
    with ctx.Pool(jobs, initializer=_init_worker, maxtasksperchild=50) as pool:
        return pool.map(_worker, range(len(scenarios)), chunksize=1)


# ----------------------------------------------------------------------------------- findings + evidence

def load_findings():
    p = VERIF / "known_findings.json"
    if not p.exists():
        return []
    return json.loads(p.read_text())["findings"]


def match_finding(findings, prop, key):
    for f in findings:
        if f.get("property") != prop or f.get("status") != "open":
            continue
        for pat in f.get("keys", [f.get("key")]):
            if pat and (pat == key or fnmatch.fnmatchcase(key, pat)):
                return f
    return None


def finish(prop, tier, seed, level, results, meta, t0, extra_cov=None, extra_violations=None):
    """Aggregate, write evidence, print VIOLATION / KNOWN-FINDING lines, return the exit code."""
    findings = load_findings()
    agg = {k: 0 for k in ("paths", "obligations", "discharged", "within_margin", "validated",
                           "validation_skipped_uf", "queries", "unsat", "sat", "n_unknown",
                           "branch_decisions", "assumed_nonzero", "validation_true_mismatch")}
    solver_time = 0.0
    cross = {"asked": 0, "agree": 0, "cvc5_unknown": 0, "errors": 0, "disagreements": 0, "time_s": 0.0, "first_error": None}
    funcs = set()
    unknown = []
    herrs = []
    bound_hits = []
    samples = []
    violations = list(extra_violations or [])
    nontrivial = 0
    for r in results:
        for k in agg:
            agg[k] += r.get(k, 0)
        solver_time += r.get("solver_time_s", 0.0)
        for k_ in ("asked", "agree", "cvc5_unknown", "errors"):
            cross[k_] += (r.get("cross") or {}).get(k_, 0)
        cross["time_s"] += (r.get("cross") or {}).get("time_s", 0.0)
        cross["disagreements"] += len((r.get("cross") or {}).get("disagree", []))
        if cross["first_error"] is None:
            cross["first_error"] = (r.get("cross") or {}).get("first_error")
        funcs.update(r.get("functions", []))
        unknown += [dict(u, scenario=r["key"]) for u in r["unknown"]]
        herrs += r["harness_errors"]
        if r.get("bound_hit"):
            bound_hits.append(f"{r['key']}: {r['bound_hit']}")
        if len(samples) < 8 and r["samples"]:
            # prefer samples with a non-empty path condition, spread over scenarios
            best = sorted(r["samples"], key=lambda s_: -s_.get("_size", 0))
            samples += [{k_: v_ for k_, v_ in best[0].items() if k_ != "_size"}]
        violations += r["violations"]
        if r["obligations"] > 0:
            nontrivial += 1
    known = []
    new = []
    unconfirmed = []
    for v in violations:
        if not v.get("confirmed"):
            unconfirmed.append(v)
            continue
        f = match_finding(findings, prop, v["key"])
        if f is not None:
            known.append((f, v))
        else:
            new.append(v)
    rdir = VERIF / "replays"
    rdir.mkdir(exist_ok=True)
    printed = set()
    for f, v in known:
        fid = f.get("id", f.get("key"))
        if fid in printed:
            continue
        printed.add(fid)
        print(f"KNOWN-FINDING: property={prop} {f['what']}")
    for i, v in enumerate(new):
        p = rdir / f"{prop}_{i}.json"
        p.write_text(json.dumps(dict(v, property=prop), indent=1, default=str))
        print(f"VIOLATION property={prop} replay={p}")
        print(f"  scenario={v['scenario']} obligation={v['label']} witness={v['witness']} impl={v.get('impl')} oracle={v.get('oracle')}")
    for v in unconfirmed:
        herrs.append(
            f"counterexample did not reproduce on the real code: {v['key']} witness={v['witness']} err={v.get('concrete_error')}"
        )
    for u in unknown[:20]:
        print(f"INCONCLUSIVE property={prop} scenario={u['scenario']} obligation={u['label']}")
    for b in bound_hits[:20]:
        print(f"BOUND-HIT property={prop} {b}")
    for h in herrs[:10]:
        print(f"HARNESS-ERROR property={prop} {h[:3000]}")
    if not samples:
        samples = [{"scenario": r["key"], "labels": r["labels"][:5]} for r in results[:3]]
    cov = {
        "states": max(agg["paths"], 1),
        "transitions": max(agg["branch_decisions"], 1),
        "traces_validated_against_impl": agg["validated"],
        "programs": max(len(results), 1),
        "disagreements_checked": agg["obligations"],
        "evaluations": max(agg["obligations"], 1),
        "distinct_nontrivial": max(nontrivial, 0),
        "rule": "one evaluation = one obligation (PC ∧ impl≠oracle) sent to z3 on one feasible path of one scenario; "
        "distinct_nontrivial = scenarios with at least one obligation reached (feasible path reaching an assertion)",
        "samples": samples[:8],
        "scenarios": len(results),
        "feasible_paths": agg["paths"],
        "obligations": agg["obligations"],
        "discharged": agg["discharged"],
        "within_margin": agg["within_margin"],
        "queries": agg["queries"],
        "unsat": agg["unsat"],
        "sat": agg["sat"],
        "unknown": agg["n_unknown"],
        "inconclusive_obligations": [f"{u['scenario']}|{u['label']}" for u in unknown][:50],
        "solver_time_s": round(solver_time, 3),
        "solver": "z3 " + z3.get_version_string(),
        "second_solver": dict(cross, time_s=round(cross["time_s"], 2), what="every VERIF_CROSS_EVERY-th obligation proved by z3 is re-asked to cvc5 (python wheel) "
                              "from z3's SMT-LIB dump of the same assertions, 2 s limit; a cvc5 'sat' is a harness error (exit 2)",
                              every=int(os.environ.get("VERIF_CROSS_EVERY", "0") or 0)),
        "assumed_nonzero": agg["assumed_nonzero"],
        "validation_skipped_uf": agg["validation_skipped_uf"],
        "validation_condition_disagreements": agg["validation_true_mismatch"],
        "bound_hit": bound_hits,
        "harness_errors": len(herrs),
        "functions_encoded": sorted(funcs),
        "known_findings_matched": sorted({f.get("id", "?") for f, _ in known}),
        "new_violations": [v["key"] for v in new],
    }
    cov.update(meta or {})
    cov.update(extra_cov or {})
    ev = {
        "property_id": prop,
        "tier": tier,
        "seed": seed,
        "level": level,
        "coverage": cov,
        "assumptions": (meta or {}).get("assumptions_list", []),
        "wall_s": round(time.time() - t0, 2),
        "violations": len(new),
    }
    edir = VERIF / "evidence"
    edir.mkdir(exist_ok=True)
    (edir / f"{prop}.json").write_text(json.dumps(ev, indent=1, default=str))
    print(
        f"{prop} {tier}: scenarios={len(results)} paths={agg['paths']} obligations={agg['obligations']} "
        f"discharged={agg['discharged']} queries={agg['queries']} unknown={len(unknown)} "
        f"known={len(printed)} new={len(new)} harness_errors={len(herrs)} wall={ev['wall_s']}s"
    )
    if new:
        return 1
    if herrs or bound_hits:
        return 2
    return 0


def replay_file(mod, path):
    """Re-run a recorded counterexample on the real code (floats, no proxies)."""
    v = json.loads(FsPath(path).read_text())
    scs = {s.key: s for s in mod.scenarios("thorough", 0)}
    scs.update({s.key: s for s in mod.scenarios("quick", 0)})
    sc = scs.get(v["scenario"])
    if sc is None:
        print(f"scenario {v['scenario']} not found")
        return 2
    cctx, err = run_concrete(sc, v["witness"], [tuple(c) for c in v.get("choices", [])])
    failed = [ob for ob in cctx.obs if ob.label == v["label"] and concrete_ob_failed(ob, sc.concrete_tol)]
    print(f"scenario={sc.key} witness={v['witness']} error={err}")
    for ob in failed:
        print(f"REPRODUCED {ob.label}: impl={ob.impl!r} oracle={ob.oracle!r} info={ob.info}")
    return 1 if failed else 0
