"""Model families: explicit grammars of MxlPy models whose numeric content is supplied by a Ctx."""
from __future__ import annotations

import itertools as it

from mxlpy import Model
from mxlpy.surrogates import qss
from mxlpy.surrogates.abstract import MockSurrogate
from mxlpy.types import Derived, InitialAssignment

from . import ratefns as R

IA = "ia"


def _coef(c):
    if isinstance(c, tuple) and c and c[0] == "d":
        return Derived(fn=c[1], args=list(c[2]))
    return c


def build(spec, ctx, vals=None):
    """Build a Model from `spec`; plain parameter / initial values are ctx.real('p_<n>') / 'i_<n>'.

    `vals` may override (dict name -> number) to use concrete values instead.
    """
    vals = vals or {}
    m = Model()

    def val(prefix, name):
        if name in vals:
            return vals[name]
        return ctx.real(f"{prefix}_{name}")

    for name, ia in spec.get("params", []):
        if ia is None:
            m.add_parameter(name, val("p", name))
        else:
            m.add_parameter(name, InitialAssignment(fn=ia[1], args=list(ia[2])))
    for name, ia in spec.get("vars", []):
        if ia is None:
            m.add_variable(name, val("i", name))
        else:
            m.add_variable(name, InitialAssignment(fn=ia[1], args=list(ia[2])))
    for name, fn, args in spec.get("derived", []):
        m.add_derived(name, fn, args=list(args))
    for name, fn, args, st in spec.get("reactions", []):
        m.add_reaction(name, fn, args=list(args), stoichiometry={k: _coef(c) for k, c in st.items()})
    for name, kind, fn, args, outputs, st in spec.get("surrogates", []):
        stoich = {o: {k: _coef(c) for k, c in d.items()} for o, d in st.items()}
        if kind == "mock":
            s = MockSurrogate(fn=fn, args=list(args), outputs=list(outputs), stoichiometries=stoich)
        else:
            s = qss.Surrogate(model=fn, args=list(args), outputs=list(outputs), stoichiometries=stoich)
        m.add_surrogate(name, s)
    for name, fn, args in spec.get("readouts", []):
        m.add_readout(name, fn, args=list(args))
    for name, series in spec.get("data", []):
        m.add_data(name, series)
    return m


def permuted(spec, which, perm_index):
    """Return spec with the list `which` permuted by the perm_index-th permutation."""
    items = spec.get(which, [])
    perms = list(it.permutations(range(len(items))))
    p = perms[perm_index % len(perms)]
    s = dict(spec)
    s[which] = [items[i] for i in p]
    s["name"] = f"{spec['name']}~{which}{''.join(map(str, p))}"
    return s


def all_orders(spec, kinds=("derived", "reactions", "params", "vars")):
    out = [spec]
    for kind in kinds:
        n = len(spec.get(kind, []))
        if n < 2:
            continue
        for i, p in enumerate(it.permutations(range(n))):
            if i == 0:
                continue
            s = dict(spec)
            s[kind] = [spec[kind][j] for j in p]
            s["name"] = f"{spec['name']}~{kind}{''.join(map(str, p))}"
            out.append(s)
    return out


# ------------------------------------------------------------------------------------ base shapes

def base_shapes():
    S = []
    S.append(dict(
        name="ma1",
        params=[("k1", None)],
        vars=[("x", None)],
        reactions=[("v1", R.mass_action_1s, ["x", "k1"], {"x": -1})],
    ))
    S.append(dict(
        name="chain2",
        params=[("k1", None), ("k2", None)],
        vars=[("x", None), ("y", None)],
        reactions=[
            ("v1", R.mass_action_1s, ["x", "k1"], {"x": -1, "y": 1}),
            ("v2", R.mass_action_1s, ["y", "k2"], {"y": -1}),
        ],
    ))
    S.append(dict(
        name="untouched",
        params=[("k1", None)],
        vars=[("x", None), ("idle", None), ("y", None)],
        reactions=[("v1", R.mass_action_1s, ["x", "k1"], {"x": -1, "y": 2})],
    ))
    S.append(dict(
        name="derived_chain3",
        params=[("k1", None), ("k2", None)],
        vars=[("x", None), ("y", None)],
        derived=[
            ("d1", R.add, ["x", "k1"]),
            ("d2", R.mul, ["d1", "k2"]),
            ("d3", R.sub, ["d2", "y"]),
        ],
        reactions=[
            ("v1", R.mass_action_1s, ["d3", "k1"], {"x": -1, "y": 1}),
            ("v2", R.mass_action_2s, ["x", "y", "k2"], {"y": -1}),
        ],
    ))
    S.append(dict(
        name="derived_rev_order",
        params=[("k1", None), ("k2", None)],
        vars=[("x", None)],
        derived=[
            ("d3", R.sub, ["d2", "x"]),
            ("d2", R.mul, ["d1", "k2"]),
            ("d1", R.add, ["x", "k1"]),
        ],
        reactions=[("v1", R.mass_action_1s, ["d3", "k1"], {"x": -1})],
    ))
    S.append(dict(
        name="frac_coef",
        params=[("k1", None)],
        vars=[("x", None), ("y", None)],
        reactions=[
            ("v1", R.mass_action_1s, ["x", "k1"], {"x": -1.5, "y": 0.5}),
            ("v2", R.mass_action_1s, ["y", "k1"], {"y": -0.25, "x": 2}),
        ],
    ))
    S.append(dict(
        name="named_coef",
        params=[("k1", None), ("n", None)],
        vars=[("x", None), ("y", None)],
        reactions=[("v1", R.mass_action_1s, ["x", "k1"], {"x": -1, "y": "n"})],
    ))
    S.append(dict(
        name="dyn_coef",
        params=[("k1", None), ("k2", None)],
        vars=[("x", None), ("y", None)],
        reactions=[
            ("v1", R.mass_action_1s, ["x", "k1"], {"x": -1, "y": ("d", R.mul, ["k2", "x"])}),
            ("v2", R.mass_action_1s, ["y", "k2"], {"y": ("d", R.neg, ["k1"]), "x": ("d", R.add, ["y", "k2"])}),
        ],
    ))
    S.append(dict(
        name="dyn_coef_derived",
        params=[("k1", None)],
        vars=[("x", None), ("y", None)],
        derived=[("dd", R.add, ["x", "y"])],
        reactions=[
            ("v1", R.mass_action_1s, ["x", "k1"], {"x": -1, "y": ("d", R.constant, ["dd"])}),
        ],
    ))
    S.append(dict(
        name="derived_names_reaction",
        params=[("k1", None), ("k2", None)],
        vars=[("x", None), ("y", None)],
        derived=[("dv", R.mul, ["v1", "k2"])],
        reactions=[
            ("v1", R.mass_action_1s, ["x", "k1"], {"x": -1, "y": 1}),
            ("v2", R.mass_action_1s, ["dv", "k2"], {"y": -1}),
        ],
    ))
    S.append(dict(
        name="time_dep",
        params=[("k1", None)],
        vars=[("x", None)],
        derived=[("dt", R.ramp, ["k1", "time"])],
        reactions=[
            ("v1", R.ramp_s, ["x", "k1", "time"], {"x": -1}),
            ("v2", R.mass_action_1s, ["dt", "k1"], {"x": 1}),
        ],
    ))
    S.append(dict(
        name="branchy_a",
        params=[("k1", None), ("k2", None)],
        vars=[("x", None), ("y", None)],
        derived=[("dm", R.smaller, ["x", "y"])],
        reactions=[
            ("v1", R.thresh, ["x", "k1"], {"x": -1, "y": 1}),
            ("v3", R.mass_action_1s, ["dm", "k2"], {"x": 1}),
        ],
    ))
    S.append(dict(
        name="branchy_b",
        params=[("k1", None), ("k2", None)],
        vars=[("x", None), ("y", None)],
        derived=[("da", R.absdiff, ["x", "k2"])],
        reactions=[
            ("v1", R.mass_action_1s, ["x", "k1"], {"x": -1, "y": 1}),
            ("v2", R.pos_part, ["da", "k2"], {"y": -1}),
        ],
    ))
    S.append(dict(
        name="ia_param_var",
        params=[("k", None), ("pia", (IA, R.add, ["d", "v"]))],
        vars=[("x", None), ("y", (IA, R.twice, ["pia"]))],
        derived=[
            ("d", R.mul, ["x", "k"]),
            ("dp", R.mul, ["pia", "k"]),
            ("dp2", R.add, ["dp", "k"]),
            ("dt", R.ramp, ["k", "time"]),
        ],
        reactions=[
            ("v", R.mass_action_1s, ["x", "k"], {"x": -1, "y": 1}),
            ("w", R.mass_action_2s, ["y", "dt", "dp2"], {"y": -1}),
        ],
    ))
    S.append(dict(
        name="ia_chain",
        params=[("k", None), ("p1", (IA, R.twice, ["k"])), ("p2", (IA, R.add, ["p1", "x0"]))],
        vars=[("x0", None), ("x1", (IA, R.mul, ["p2", "x0"]))],
        derived=[("dpar", R.add, ["p1", "p2"]), ("dvar", R.add, ["dpar", "x1"])],
        reactions=[("v", R.mass_action_2s, ["x0", "dvar", "dpar"], {"x0": -1, "x1": 1})],
    ))
    S.append(dict(
        name="surrogate2",
        params=[("k1", None), ("k2", None)],
        vars=[("x", None), ("y", None)],
        derived=[("ds", R.add, ["so", "k1"])],
        reactions=[("v1", R.mass_action_1s, ["ds", "k2"], {"y": -1})],
        surrogates=[
            ("sur", "mock", R.two_outputs, ["x", "k1"], ["sf", "so"], {"sf": {"x": -1, "y": 1.5}}),
        ],
    ))
    S.append(dict(
        name="surrogate_time",
        params=[("k1", None)],
        vars=[("x", None), ("y", None)],
        derived=[("dst", R.add, ["to", "k1"])],
        reactions=[("v1", R.mass_action_1s, ["dst", "k1"], {"y": -1})],
        surrogates=[
            ("sur", "mock", R.two_outputs, ["x", "time"], ["tf", "to"], {"tf": {"x": -1, "y": 1}}),
        ],
    ))
    S.append(dict(
        name="surrogate_qss",
        params=[("k1", None)],
        vars=[("x", None), ("y", None)],
        derived=[("dq", R.mul, ["x", "k1"])],
        reactions=[("v1", R.mass_action_1s, ["q2", "k1"], {"x": 1})],
        surrogates=[
            ("qs", "qss", R.two_outputs_c, ["dq", "y", "k1"], ["q1", "q2"],
             {"q1": {"x": -1, "y": ("d", R.constant, ["x"])}}),
        ],
    ))
    import pandas as _pd

    S.append(dict(
        name="data_readout",
        params=[("k1", None)],
        vars=[("x", None), ("y", None)],
        derived=[("dd", R.first_of, ["light"]), ("dk", R.mul, ["dd", "k1"])],
        reactions=[("v1", R.mass_action_1s, ["x", "dk"], {"x": -1, "y": 1})],
        readouts=[("ro1", R.mul, ["x", "v1"]), ("ro2", R.add, ["dd", "y"])],
        data=[("light", _pd.Series({"a": 1.5, "b": 2.0}))],
    ))
    S.append(dict(
        name="mm_moiety",
        params=[("vmax", None), ("km", None), ("tot", None)],
        vars=[("x", None)],
        derived=[("xo", R.moiety, ["x", "tot"])],
        reactions=[
            ("v1", R.michaelis_menten_1s, ["x", "vmax", "km"], {"x": -1}),
            ("v2", R.mass_action_1s, ["xo", "km"], {"x": 1}),
        ],
    ))
    S.append(dict(
        name="static_derived_coef",
        params=[("k1", None), ("k2", None)],
        vars=[("x", None), ("y", None)],
        derived=[("sp", R.add, ["k1", "k2"])],
        reactions=[
            ("v1", R.mass_action_1s, ["x", "sp"], {"x": -1, "y": ("d", R.mul, ["k1", "sp"])}),
        ],
    ))
    return S


def grammar_shapes(with_surrogates=True):
    """Exhaustive product of a small model grammar (thorough tiers).

    two variables + optionally an untouched one; reaction 1 (x -> y) and reaction 2 (y ->) with a rate law each;
    the coefficient of y in reaction 1 of every kind; a derived chain of depth 0-3 feeding reaction 2;
    optionally a two-output surrogate; declaration order natural or reversed.
    """
    laws1 = {
        "ma": (R.mass_action_1s, ["x", "k1"]),
        "mm": (R.michaelis_menten_1s, ["x", "k1", "k2"]),
        "thr": (R.thresh, ["x", "k1"]),
        "time": (R.ramp_s, ["x", "k1", "time"]),
    }
    coefs = {
        "int": 1,
        "frac": 0.5,
        "named": "k2",
        "state": ("d", R.mul, ["k2", "x"]),
        "param": ("d", R.twice, ["k1"]),
    }
    out = []
    for (l1, (fn1, args1)), (ck, coef), depth, untouched, sur, rev in it.product(
        laws1.items(), coefs.items(), range(4), (False, True), (False, True) if with_surrogates else (False,), (False, True)
    ):
        derived = []
        last = "y"
        for d in range(depth):
            name = f"d{d + 1}"
            derived.append((name, R.add if d % 2 == 0 else R.mul, [last, "k2" if d % 2 == 0 else "k1"]))
            last = name
        rxns = [
            ("v1", fn1, list(args1), {"x": -1, "y": coef}),
            ("v2", R.mass_action_1s, [last, "k2"], {"y": -1}),
        ]
        vars_ = [("x", None)] + ([("idle", None)] if untouched else []) + [("y", None)]
        spec = dict(
            name=f"g/{l1}/{ck}/d{depth}{'/u' if untouched else ''}{'/s' if sur else ''}{'/rev' if rev else ''}",
            params=[("k1", None), ("k2", None)],
            vars=vars_,
            derived=derived[::-1] if rev else derived,
            reactions=rxns[::-1] if rev else rxns,
        )
        if sur:
            spec["surrogates"] = [("sur", "mock", R.two_outputs, ["x", "k1"], ["sf", "so"], {"sf": {"x": -1, "y": 1.5}})]
            spec["derived"] = list(spec["derived"]) + [("dso", R.add, ["so", "k2"])]
            spec["reactions"] = list(spec["reactions"]) + [("v3", R.mass_action_1s, ["dso", "k1"], {"x": 1})]
        out.append(spec)
    return out


def shapes(tier="quick"):
    base = base_shapes()
    out = []
    for s in base:
        if tier == "quick":
            out.append(s)
            # one non-identity order per kind
            for kind in ("derived", "reactions", "vars"):
                n = len(s.get(kind, []))
                if n >= 2:
                    out.append(permuted(s, kind, -1))
        else:
            out.extend(all_orders(s))
    return out


def no_surrogates(shape_list):
    return [s for s in shape_list if not s.get("surrogates")]
