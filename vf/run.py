"""CLI: python -m vf.run <ID> --tier quick|thorough [--seed N] | --replay <file>"""
from __future__ import annotations

import argparse
import importlib
import json
import os
import sys
import time


def main():
    ap = argparse.ArgumentParser()
    ap.add_argument("prop")
    ap.add_argument("--tier", default=os.environ.get("VERIF_TIER", "quick"))
    ap.add_argument("--seed", type=int, default=int(os.environ.get("VERIF_SEED", "0")))
    ap.add_argument("--replay")
    ap.add_argument("--only", help="substring filter on scenario keys (debugging)")
    a = ap.parse_args()
    import logging

    logging.disable(logging.CRITICAL)
    prop = a.prop.upper()
    # second solver (cvc5) re-checks every N-th obligation that z3 proves; see symlift/core.py Engine._cross_check
    os.environ.setdefault("VERIF_CROSS_EVERY", "200" if a.tier == "quick" else "50")
    t0 = time.time()
    os.environ.setdefault("HOME_ORIG", os.environ.get("HOME", ""))
    mod = importlib.import_module(f"vf.props.{prop.lower()}")
    from vf import common

    if a.replay:
        rc = common.replay_file(mod, a.replay)
        sys.exit(rc)
    if hasattr(mod, "main"):
        sys.exit(mod.main(a.tier, a.seed, t0, only=a.only))
    scs = mod.scenarios(a.tier, a.seed)
    if a.only:
        scs = [s for s in scs if a.only in s.key]
    results = common.run_all(scs)
    extra = mod.extra(a.tier, a.seed) if hasattr(mod, "extra") else None
    meta = dict(mod.META)
    meta["tier_family"] = f"{len(scs)} scenarios"
    rc = common.finish(prop, a.tier, a.seed, mod.LEVEL, results, meta, t0,
                       extra_cov=(extra or {}).get("coverage"), extra_violations=(extra or {}).get("violations"))
    sys.exit(rc)


if __name__ == "__main__":
    main()
