"""Derivative of a z3 real term with respect to an uninterpreted constant (independent of sympy)."""
from __future__ import annotations

import z3

from symlift import core as S


class NotDifferentiable(Exception):
    pass


def d(t, x):
    """d t / d x for z3 Real terms built by symlift (+, -, *, /, integer powers, If, uf_exp/log/sqrt/sin/cos)."""
    cache = {}

    def go(a):
        k = a.get_id()
        if k in cache:
            return cache[k]
        r = _go(a)
        cache[k] = r
        return r

    def _go(a):
        if z3.is_rational_value(a) or z3.is_int_value(a) or z3.is_algebraic_value(a):
            return z3.RealVal(0)
        if z3.is_const(a) and a.decl().kind() == z3.Z3_OP_UNINTERPRETED:
            return z3.RealVal(1) if z3.eq(a, x) else z3.RealVal(0)
        kind = a.decl().kind()
        ch = a.children()
        if kind == z3.Z3_OP_ADD:
            return z3.Sum([go(c) for c in ch])
        if kind == z3.Z3_OP_SUB:
            r = go(ch[0])
            for c in ch[1:]:
                r = r - go(c)
            return r
        if kind == z3.Z3_OP_UMINUS:
            return -go(ch[0])
        if kind == z3.Z3_OP_MUL:
            terms = []
            for i, c in enumerate(ch):
                dc = go(c)
                others = [o for j, o in enumerate(ch) if j != i]
                prod = dc
                for o in others:
                    prod = prod * o
                terms.append(prod)
            return z3.Sum(terms)
        if kind == z3.Z3_OP_DIV:
            u, v = ch
            return (go(u) * v - u * go(v)) / (v * v)
        if kind == z3.Z3_OP_POWER:
            b, e = ch
            if z3.is_rational_value(e) or z3.is_int_value(e):
                return e * (b ** (e - 1)) * go(b)
            raise NotDifferentiable("symbolic exponent")
        if kind == z3.Z3_OP_ITE:
            c, u, v = ch
            return z3.If(c, go(u), go(v))
        if kind == z3.Z3_OP_TO_REAL:
            return z3.RealVal(0)
        if kind == z3.Z3_OP_UNINTERPRETED:
            name = a.decl().name()
            if name == "uf_exp":
                return a * go(ch[0])
            if name == "uf_log":
                return go(ch[0]) / ch[0]
            if name == "uf_sqrt":
                return go(ch[0]) / (2 * a)
            if name == "uf_sin":
                return S.uf("cos")(ch[0]) * go(ch[0])
            if name == "uf_cos":
                return -S.uf("sin")(ch[0]) * go(ch[0])
            raise NotDifferentiable(name)
        raise NotDifferentiable(str(a.decl()))

    return go(t)
