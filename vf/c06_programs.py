"""Program family for C06 (Python -> sympy translation). One construct per minimal probe, then composites."""
import math

import numpy as np

K = 2.5
HALF = 0.5


def p_add(x, y):
    return x + y


def p_sub(x, y):
    return x - y


def p_mul3(x, y, z):
    return x * y * z


def p_div(x, y):
    return x / y


def p_ratio(x, y):
    return x / (1 + y)


def p_pow2(x):
    return x**2


def p_pow3k(x, k):
    return k * x**3


def p_pow_neg(x):
    return x**-1


def p_unary(x, y):
    return -x + (+y)


def p_const(x):
    return x * K + HALF


def p_literal(x, y):
    return 2 * x - 0.25 * y + 3


def p_mm(s, vmax, km):
    return vmax * s / (km + s)


def p_rev(s, p, kf, keq):
    return kf * (s - p / keq)


def p_local(x, y):
    a = x * y
    return a + x


def p_local_chain(x, y):
    a = x + y
    b = a * a
    c = b - x
    return c / 2


def p_reassign(x, y):
    a = x
    a = a * y
    a = a + 1
    return a


def p_tuple_assign(x, y):
    a, b = x, y
    return a - b


def p_tuple_swap(x, y):
    x, y = y, x
    return x - y


def p_if_return(x, y):
    if x > y:
        return x
    return y


def p_if_else_return(x, y):
    if x >= y:
        return x - y
    else:
        return y - x


def p_elif(x, a, b):
    if x < a:
        return a
    elif x < b:
        return x
    else:
        return b


def p_elif_no_else(x, a, b):
    if x < a:
        return a * 2
    elif x > b:
        return b * 2
    return x


def p_nested_if(x, y):
    if x > 0:
        if y > 0:
            return x * y
        return x
    return y


def p_if_assign_branch(x, y):
    a = x
    if x > y:
        a = y
    return a * 2


def p_if_else_assign_then_return(c, y):
    if c > 1:
        z = 1.0
    else:
        z = 2.0
    return z * y


def p_if_assign_both_return_inside(x, y):
    if x > y:
        a = x * 2
        return a
    else:
        a = y * 3
        return a


def p_assign_before_if_used_in_both(x, y):
    a = x + y
    if a > 1:
        return a * x
    return a * y


def p_ternary(x, y):
    return x if x > y else y


def p_ternary_nested(x, a, b):
    return a if x < a else (b if x > b else x)


def p_ternary_arith(s, k):
    return k * s if s > 1 else k


def p_lt(x, y):
    if x < y:
        return 1.0
    return 2.0


def p_le(x, y):
    if x <= y:
        return x
    return y + 1


def p_ge_boundary(x, y):
    if x >= y:
        return x + 1
    return x


def p_eq(x, y):
    if x == 0:
        return y
    return x * y


def p_ne(x, y):
    if x != y:
        return x - y
    return 1.0


def p_eq_two_vars(x, y):
    return x if x == y else y + 1


def p_chain(x, a, b):
    if a < x < b:
        return x
    return a


def p_chain_mixed(x, a, b):
    if a <= x < b:
        return x - a
    return 0.0


def p_chain3(x, a, b, c):
    return 1.0 if a < x <= b < c else 0.0


def helper_ratio(x, y):
    return x / (1 + y)


def helper_scale(s, k):
    return k * s


def helper_mm(s, vmax=2.0, km=0.5):
    return vmax * s / (km + s)


def helper_hill(s, vmax, km=1.0, n=2.0):
    return vmax * s**n / (km + s**n)


def p_call_partial_defaults(x, v, k):
    return helper_hill(x, v, k)


def p_call_no_defaults_passed(x, v):
    return helper_hill(x, v)


def p_call_default_used(x):
    return helper_mm(x)


def p_call_positional_over_default(x, k):
    return helper_mm(x, k)


def p_call_keyword(x, k):
    return helper_mm(x, km=k)


def p_call_all_keywords(x, k):
    return helper_mm(s=x, km=k)


def p_call_keyword_reordered(x, k, v):
    return helper_mm(x, km=k, vmax=v)


def p_call(x, y):
    return helper_ratio(x, y) * 2


def p_call_swapped(x, y):
    return helper_ratio(y, x) * 2


def p_call_expr_args(x, y):
    return helper_ratio(x + y, x * y)


def p_call_nested(s, k):
    return helper_scale(helper_scale(s, k), k)


def p_call_local(x, y):
    a = helper_scale(x, y)
    return a + helper_ratio(a, x)


def p_call_in_branch(x, y):
    if x > y:
        return helper_ratio(x, y)
    return helper_ratio(y, x)


def p_abs(x, y):
    return abs(x - y)


def p_min(x, y):
    return min(x, y)


def p_max3(x, y, z):
    return max(x, y, z)


def p_math_exp(x, k):
    return k * math.exp(-x)


def p_math_sqrt(x):
    return math.sqrt(x)


def p_math_log(x, y):
    return math.log(x) + y


def p_np_exp(x):
    return np.exp(x)


def p_np_sqrt(x, y):
    return np.sqrt(x) * y


def p_np_greater(s, t, p):
    if np.greater(s, t):
        return p * (s - t) + 1.0
    return 0.0


def p_np_less(s, t):
    if np.less(s, t):
        return 0.0
    return s - t + 1.0


def p_np_greater_equal(s, t):
    return 1.0 if np.greater_equal(s, t) else 0.0


def p_np_positive(x):
    return np.positive(x)


def p_np_maximum(x, y):
    return np.maximum(x, y)


def p_np_minimum(x, y):
    return np.minimum(x, y) + 1


def p_np_abs(x):
    return np.abs(x)


def p_math_pow(x, y):
    return math.pow(x, 2) + y


def p_math_const(x):
    return x * math.pi


def p_partial_use(x, y):
    return 2 * x


def p_partial_use2(x, y, z):
    return z - x


def p_shadow_const(x, K):  # noqa: N803  (argument named like a module constant)
    return x * K


def p_compare_after_assign(x, y):
    d = x - y
    if d > 0:
        return d
    return -d


def p_sequence_two_ifs(x, a, b):
    if x < a:
        return a
    if x > b:
        return b
    return x


def p_return_in_else_only(x, y):
    if x > y:
        z = x
    else:
        return y
    return z * 2


def p_for_loop(x, k):
    r = 0.0
    for _ in range(2):
        r = r + k * x
    return r


def p_augassign(x, y):
    r = x
    r += y
    return r * 2


def p_while(x, y):
    r = x
    n = 0
    while n < 2:
        r = r * y
        n = n + 1
    return r


def p_docstring_pass(x, y):
    """A docstring and a pass statement carry no meaning."""
    pass
    return x - y


# helpers that read module-level constants by bare name; callers whose own parameters / locals carry the same names
# (Python resolves the helper's name in the helper's globals, never in the caller's scope)
KM_CONST = 0.5
SCALE_CONST = 3.0


def helper_saturation_const(s):
    return s / (KM_CONST + s)


def helper_scaled_const(x):
    return SCALE_CONST * x


def p_call_helper_const_vs_param(s, KM_CONST):  # noqa: N803
    return helper_saturation_const(s) * KM_CONST


def p_call_helper_const_vs_local(a, b):
    SCALE_CONST = a + b  # noqa: N806
    return helper_scaled_const(a) - SCALE_CONST


def p_call_helper_const_plain(s, v):
    return helper_saturation_const(s) * v


# known numpy functions applied to constants (the only arguments the translator accepts for them): the value must be numpy's
def p_np_positive_of_constant(x):
    return x * np.positive(-2.0)


def p_np_less_tie_of_constants(x):
    return x + np.less(1.5, 1.5)


def p_np_greater_tie_of_constants(x):
    return x + np.greater(2.5, 2.5)


def p_np_maximum_of_constants(x):
    return x * np.maximum(1.5, 0.25)


def p_np_minimum_of_constants(x):
    return x * np.minimum(1.5, 0.25)


# a closure variable named like a module-level constant: Python reads the closure, not the module
CLOSURE_SCALE = 5.0


def _make_closure_rate(CLOSURE_SCALE):  # noqa: N803
    def p_closure_shadows_module_constant(x, k):
        return CLOSURE_SCALE * k * x

    return p_closure_shadows_module_constant


p_closure_shadows_module_constant = _make_closure_rate(2.0)


def _make_closure_rate_plain(factor):
    def p_closure_variable(x, k):
        return factor * k * x

    return p_closure_variable


p_closure_variable = _make_closure_rate_plain(0.75)


PROGRAMS = [v for k, v in sorted(globals().items()) if k.startswith("p_") and callable(v)]
# constructs with an open finding on the pinned tree: kept out of composites, probed individually
FINDING_PROBES = {"p_if_assign_branch", "p_if_else_assign_then_return", "p_return_in_else_only"}
