import logging, time
logging.disable(logging.CRITICAL)
from vf.props import c09
from vf import common
from symlift import core as S
scs=[s for s in c09.scenarios("thorough",0) if s.key.startswith("C09/decay/ss/k+x/r4/pool")]
sc=scs[0]; sc.max_paths=60
eng = S.Engine(max_decisions=sc.max_decisions, max_paths=sc.max_paths, timeout_ms=sc.timeout_ms)
def body():
    ctx = common.Ctx(True)
    try: sc.run(ctx)
    except common.StopScenario: pass
    return ctx
paths=[]
try:
    with common.lifted(sc):
        paths = eng.explore(body, catch=(Exception,))
except S.BoundHit as e:
    print("bound", e)
print(len(paths), eng.aborted)
ps = eng.paths_so_far
for p in ps[:3]+ps[-3:]:
    print(len(p.pc), p.choices, [common._short(c,90) for c in p.pc if not any(c.eq(a) for k,a in p.assumed)][:14])
