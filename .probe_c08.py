import logging; logging.disable(logging.CRITICAL)
from vf.props import c08
from vf import common
for sc in c08.scenarios("quick",0):
    r = common.run_scenario(sc, do_validate=False)
    if any("refused" in l for l in r["labels"]): print(sc.key, [l for l in r["labels"] if "refused" in l])
