#!/bin/bash
# Build the tooling venv offline: /venv's python + a .pth to /venv's site-packages + z3/cvc5/crosshair wheels.
set -e
cd "$(dirname "$0")"
if [ ! -x .venv/bin/python ]; then
  /venv/bin/python -m venv .venv
fi
SP=$(.venv/bin/python -c "import sysconfig; print(sysconfig.get_paths()['purelib'])")
printf "import site; site.addsitedir('/venv/lib/python3.12/site-packages')\n/repo/src\n" > "$SP/verif_overlay.pth"
PIP_NO_INDEX=1 .venv/bin/pip install --quiet --no-index --find-links /opt/veriftools/wheels z3-solver cvc5 crosshair-tool
.venv/bin/python -c "import z3, cvc5, crosshair, mxlpy, lark; print('setup ok: z3', z3.get_version_string())"
