"""For every repaired defect: undo the repair in /repo (reverse-apply the fix commit), run the property's quick check, restore.

A `fixed` entry of known_findings.json suppresses nothing, so the check has to report the defect again when it returns.
Results: /verif/seeded/fix_reversal.json. Commits whose reverse patch no longer applies (later repairs touch the same lines)
are recorded as such.
"""
import json, os, re, subprocess, sys
os.chdir("/verif")
def sh(c, **kw):
    return subprocess.run(c, shell=True, capture_output=True, text=True, **kw)
assert sh("git -C /repo status --porcelain").stdout.strip() == "", "/repo not clean"
k = json.load(open("known_findings.json"))
fixed = [e for e in k["findings"] if e.get("status") == "fixed"]
only = set(sys.argv[1:])
out = []
if only and os.path.exists("/verif/seeded/fix_reversal.json"):  # a partial re-run replaces only its own rows
    out = [r for r in json.load(open("/verif/seeded/fix_reversal.json")) if r["commit"] not in only]
for e in fixed:
    h, prop = e["commit"], e["property"]
    if only and h not in only:
        continue
    sh(f"git -C /repo show {h} -- src > /verif/.rev.diff")
    ap = sh("git -C /repo apply -R /verif/.rev.diff")
    row = {"commit": h, "property": prop, "what": e["what"][:160]}
    if ap.returncode != 0:
        row["result"] = "reverse patch does not apply (later repairs touch the same lines)"
    else:
        try:
            r = sh(f"./check {prop} --tier quick", timeout=3000)
            lines = [l for l in r.stdout.split("\n") if "WARNING" not in l]
            first = next((l.strip() for l in lines if l.strip().startswith("scenario=")), "")
            row.update(exit_code=r.returncode, violations=sum(1 for l in lines if l.startswith("VIOLATION")),
                       first_violation=re.sub(r" witness=.*", "", first)[:220])
        finally:
            sh("git -C /repo checkout -- .")
    out.append(row)
    print(row, flush=True)
    json.dump(out, open("/verif/seeded/fix_reversal.json", "w"), indent=1)
os.remove("/verif/.rev.diff")
