#!/bin/bash
# run confirmations one after another for the IDs given (avoid overloading while agents run test suites)
for id in "$@"; do /verif/tools/confirm3.sh $id; done
