#!/bin/bash
# tools/confirm3.sh <ID>  — confirm the round-3 seeds (e, f breaking; g behaviour-preserving) of one property in its scratch worktree
for v in e f g; do SEED_ROOT=/tmp/wt3 python3 /verif/tools/seed_confirm.py $1 $v; done
