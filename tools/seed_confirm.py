"""Confirm a seeded change produced by a sub-agent and store it under /verif/seeded/<ID>_<variant>/.

usage: seed_confirm.py C01 a [--no-suite]
Runs in the agent's scratch worktree /tmp/wt/<ID> (never in /repo).
"""
import json, os, shutil, subprocess, sys, time
pid, var = sys.argv[1], sys.argv[2]
wt = f"{os.environ.get('SEED_ROOT', '/tmp/wt')}/{pid}"
seed = f"{wt}/_seed/{var}"
env = dict(os.environ, PYTHONPATH=f"{wt}/src", HOME=f"/tmp/seedhome_{pid}{var}")
os.makedirs(env["HOME"], exist_ok=True)
def run(cmd, **kw):
    return subprocess.run(cmd, shell=True, capture_output=True, text=True, env=env, cwd=wt, **kw)
run("git checkout -- src")
benign = var == "g"  # behaviour-preserving refactor: no demo of its own; the sibling demos e and f must still pass with it
if benign:
    ap = run(f"git apply {seed}/patch.diff")
    if ap.returncode != 0:
        print("patch does not apply", ap.stderr); sys.exit(2)
    demos = {}
    for sib in ("e", "f"):
        if os.path.exists(f"{wt}/_seed/{sib}/demo.py"):
            demos[sib] = run(f"/venv/bin/python {wt}/_seed/{sib}/demo.py", timeout=900).returncode
    junit = f"/tmp/junit_{pid}{var}.xml"
    run(f"/venv/bin/python -m pytest -q -p no:cacheprovider --timeout=900 --continue-on-collection-errors --junitxml={junit} > /dev/null 2>&1", timeout=1800)
    c = subprocess.run(f"python3 /verif/tools/cmp_baseline.py {junit}", shell=True, capture_output=True, text=True, cwd="/")
    suite = c.stdout.strip().split("\n")[0] + (" OK" if c.returncode == 0 else " MISSING-BASELINE-TESTS")
    run("git checkout -- src")
    shutil.rmtree(env["HOME"], ignore_errors=True)
    ok = suite.endswith("OK") and all(v == 0 for v in demos.values())
    out = f"/verif/seeded/{pid}_{var}"
    os.makedirs(out, exist_ok=True)
    shutil.copy(f"{seed}/patch.diff", out)
    notes = open(f"{seed}/notes.md").read() if os.path.exists(f"{seed}/notes.md") else ""
    open(f"{out}/notes.md", "w").write(notes)
    nlines = sum(1 for l in open(f"{seed}/patch.diff") if l[:1] in "+-" and l[:3] not in ("+++", "---"))
    meta = {"property": pid, "variant": var, "kind": "behaviour-preserving refactor (the check must stay silent)",
            "origin": "independent sub-agent given only the property text and a scratch worktree",
            "needs_to_manifest": notes[:1500], "changed_lines": nlines,
            "confirmed": {"sibling_demos_with_patch_rc": demos, "test_suite_with_patch": suite, "ok": ok,
                          "ran": ["git apply patch.diff", "demo.py of the sibling seeds e and f", "full pytest suite with patch vs BASELINE stable_pass", "git checkout -- src"]},
            "detected_by": None}
    json.dump(meta, open(f"{out}/meta.json", "w"), indent=1)
    print(pid, var, "benign: sibling demos", demos, "suite:", suite, "changed lines", nlines, "OK" if ok else "NOT-CONFIRMED")
    sys.exit(0)
r0 = run(f"/venv/bin/python {seed}/demo.py", timeout=900)
ap = run(f"git apply {seed}/patch.diff")
if ap.returncode != 0:
    print("patch does not apply", ap.stderr); sys.exit(2)
r1 = run(f"/venv/bin/python {seed}/demo.py", timeout=900)
suite = None
if "--no-suite" not in sys.argv:
    junit = f"/tmp/junit_{pid}{var}.xml"
    run(f"/venv/bin/python -m pytest -q -p no:cacheprovider --timeout=900 --continue-on-collection-errors --junitxml={junit} > /dev/null 2>&1", timeout=1800)
    c = subprocess.run(f"python3 /verif/tools/cmp_baseline.py {junit}", shell=True, capture_output=True, text=True, cwd="/")
    suite = c.stdout.strip().split("\n")[0] + (" OK" if c.returncode == 0 else " MISSING-BASELINE-TESTS")
run("git checkout -- src")
shutil.rmtree(env["HOME"], ignore_errors=True)
ok = r0.returncode == 0 and r1.returncode != 0 and (suite is None or suite.endswith("OK"))
out = f"/verif/seeded/{pid}_{var}"
os.makedirs(out, exist_ok=True)
shutil.copy(f"{seed}/patch.diff", out); shutil.copy(f"{seed}/demo.py", out)
notes = open(f"{seed}/notes.md").read() if os.path.exists(f"{seed}/notes.md") else ""
open(f"{out}/notes.md", "w").write(notes)
meta = {"property": pid, "variant": var, "origin": "independent sub-agent given only the property text and a scratch worktree",
        "needs_to_manifest": notes[:1500],
        "confirmed": {"demo_without_patch_rc": r0.returncode, "demo_with_patch_rc": r1.returncode,
                      "demo_with_patch_tail": (r1.stdout + r1.stderr)[-600:], "test_suite_with_patch": suite, "ok": ok,
                      "ran": ["demo.py on clean worktree", "git apply patch.diff; demo.py", "full pytest suite with patch vs BASELINE stable_pass", "git checkout -- src"]},
        "detected_by": None}
json.dump(meta, open(f"{out}/meta.json", "w"), indent=1)
print(pid, var, "demo clean rc", r0.returncode, "patched rc", r1.returncode, "suite:", suite, "OK" if ok else "NOT-CONFIRMED")
