#!/bin/bash
# tools/devcheck.sh <ID> [args]  — development only: run a check against the scratch worktree /tmp/dev instead of /repo
# (used while tools/seed_matrix.py holds /repo with a seeded patch applied). Evidence written by such a run is never committed.
cd "$(dirname "$0")/.."
PYTHONPATH="$PWD:/tmp/dev/src" exec .venv/bin/python -W ignore -m vf.run "$@"
