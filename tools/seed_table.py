"""Print the DESIGN.md table of seeded changes for the given variant letters (default: all)."""
import glob, json, os, re, sys
letters = sys.argv[1:] or None
print("| seed | change (from the sub-agent's notes) | quick check | first violation reported |")
print("|---|---|---|---|")
for d in sorted(glob.glob("/verif/seeded/C*_*")):
    sd = os.path.basename(d)
    if letters and sd.split("_")[1] not in letters:
        continue
    m = json.load(open(f"{d}/meta.json"))
    note = (m.get("needs_to_manifest") or "").strip().split("\n")[0].lstrip("# ").strip()
    db = m.get("detected_by") or {}
    if db.get("exit_code") is None:
        res = db.get("error", "not run")
    else:
        res = f"exit {db['exit_code']}, {db.get('violations', 0)} VIOLATION"
    if db.get("note"):
        res += " (" + db["note"] + ")"
    if db.get("note_final_tree"):
        res += " [at 77bfced; the patch conflicts with later repairs]"
    fv = (db.get("first_violation") or "").replace("|", "/")[:110]
    print(f"| {sd} | {note.replace('|', '/')} | {res} | {fv} |")
