"""Regenerate MANIFEST.json from vf/registry.py (kept valid at all times)."""
import json, sys
sys.path.insert(0, '/verif')
from vf.registry import CHECKS, NOT_APPLICABLE
props = [json.loads(l) for l in open('/verif/properties.jsonl')]
ids = [p['id'] for p in props]
checks = []
for pid in ids:
    if pid in CHECKS:
        c = CHECKS[pid]
        checks.append({
            "property_id": pid,
            "quick_cmd": f"./check {pid} --tier quick",
            "thorough_cmd": f"./check {pid} --tier thorough",
            "evidence_file": f"/verif/evidence/{pid}.json",
            "replay_cmd_template": f"./check {pid} --replay {{path}}",
            "engine": "symlift",
            "level_claimed": {"category": c["level"], "text": c["text"], "design_ref": f"DESIGN.md section 3, {pid}"},
            "level_note": c["note"],
            "technique": c["technique"],
        })
na = [{"property_id": pid, "reason": NOT_APPLICABLE.get(pid, "check not built yet in this round (work in progress); see DESIGN.md section 3 for the plan")}
      for pid in ids if pid not in CHECKS]
man = {
    "version": 1,
    "setup_cmd": "./setup.sh",
    "hooks": {"guard": "MXLPY_VERIF", "enable": "no source hooks: all instrumentation is namespace injection from the harness side (module globals np/pd/float/spi rebound on the imported modules)",
              "baseline_off_cmd": "cd /repo && /venv/bin/python -m pytest -ra -q -p no:cacheprovider --timeout=900 --continue-on-collection-errors",
              "source_commits": [], "add_only": True},
    "engines": [{"name": "symlift", "path": "/verif/symlift", "serves_properties": sorted(CHECKS),
                 "kind_free_text": "dynamic symbolic execution of the unmodified MxlPy source: z3 terms wrapped in Python objects flow through the real code, path conditions and obligations are decided by z3; counterexamples replayed on floats"}],
    "checks": checks,
    "notes": "Solver-based checking of the real code; see DESIGN.md. Exit codes: 0 held / known findings only, 1 VIOLATION, 2 harness error or bound hit.",
    "not_applicable": na,
}
json.dump(man, open('/verif/MANIFEST.json', 'w'), indent=1)
print("checks:", len(checks), "not_applicable:", len(na))
