import json,sys,glob
import jsonschema
man=json.load(open('/verif/MANIFEST.json')) if len(sys.argv)<2 else None
ms=json.load(open('/root/.vp/MANIFEST.schema.json')); es=json.load(open('/root/.vp/EVIDENCE.schema.json'))
if man is not None:
    jsonschema.validate(man,ms); print("manifest ok", len(man['checks']),"checks")
for f in sorted(glob.glob('/verif/evidence/*.json')):
    try:
        jsonschema.validate(json.load(open(f)),es); print("ok",f)
    except Exception as e:
        print("BAD",f,str(e)[:300])
