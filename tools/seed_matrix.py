"""Run every registered check against every seeded change (applied to /repo, then reverted); update meta.json.

usage: seed_matrix.py [ID_variant ...]     (default: all under /verif/seeded)
"""
import json, os, subprocess, sys, glob
os.chdir("/verif")
seeds = sys.argv[1:] or sorted(os.path.basename(p) for p in glob.glob("/verif/seeded/C*_*"))
assert subprocess.run("git -C /repo status --porcelain", shell=True, capture_output=True, text=True).stdout.strip() == "", "/repo not clean"
rows = []
for sd in seeds:
    d = f"/verif/seeded/{sd}"
    pid = sd.split("_")[0]
    meta = json.load(open(f"{d}/meta.json"))
    patch = f"{d}/patch.diff"
    for alt in ("patch_rebased.diff", "patch_rebased2.diff", "patch_rebased3.diff"):  # rebased onto later repairs of /repo (the latest wins)
        if os.path.exists(f"{d}/{alt}"):
            patch = f"{d}/{alt}"
    ap = subprocess.run(f"git -C /repo apply {patch}", shell=True, capture_output=True, text=True)
    if ap.returncode != 0:
        meta["detected_by"] = {"applies_to_fixed_tree": False, "error": ap.stderr[-300:]}
        json.dump(meta, open(f"{d}/meta.json", "w"), indent=1)
        rows.append((sd, "patch does not apply", ""))
        continue
    try:
        r = subprocess.run(f"./check {pid} --tier quick", shell=True, capture_output=True, text=True, timeout=3600)
        out = [l for l in r.stdout.split("\n") if "WARNING" not in l]
        viol = [l for l in out if l.startswith("VIOLATION")]
        first = next((l.strip() for l in out if l.strip().startswith("scenario=")), "")
        meta["detected_by"] = {"check": f"./check {pid} --tier quick", "exit_code": r.returncode, "violations": len(viol),
                               "first_violation": first[:400], "summary": next((l for l in out if l.startswith(f"{pid} quick")), "")[:300]}
        rows.append((sd, f"exit {r.returncode}, {len(viol)} VIOLATION line(s)", first[:160]))
    except subprocess.TimeoutExpired:
        meta["detected_by"] = {"check": f"./check {pid} --tier quick", "exit_code": None, "error": "timed out after 3600 s"}
        rows.append((sd, "timeout", ""))
    finally:
        subprocess.run("git -C /repo checkout -- .", shell=True)
    json.dump(meta, open(f"{d}/meta.json", "w"), indent=1)
    print(rows[-1], flush=True)
allrows = []
for d in sorted(glob.glob("/verif/seeded/C*_*")):
    m = json.load(open(f"{d}/meta.json"))
    db = m.get("detected_by") or {}
    allrows.append({"seed": os.path.basename(d), "property": m.get("property"), "exit_code": db.get("exit_code"), "violations": db.get("violations"),
                    "first_violation": (db.get("first_violation") or "")[:200], "note": db.get("note", ""),
                    "note_final_tree": db.get("note_final_tree", ""), "differential_on_own_base": m.get("differential_on_own_base")})
json.dump(allrows, open("/verif/seeded/matrix.json", "w"), indent=1)
