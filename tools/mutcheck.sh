#!/bin/bash
# tools/mutcheck.sh <patch.diff> <ID> [tier]  — apply a seeded change to /repo, run the check, undo it.
set -u
PATCH=$(realpath "$1"); ID=$2; TIER=${3:-quick}
git -C /repo apply "$PATCH" || { echo "patch does not apply"; exit 3; }
/verif/check "$ID" --tier "$TIER" 2>&1 | grep -v "WARNING" | cut -c1-300 | tail -${LINES_OUT:-12}
RC=${PIPESTATUS[0]}
git -C /repo checkout -- .
echo "exit=$RC"
