#!/bin/bash
# tools/devmut.sh <patch.diff> <ID> [tier] — development only: apply a change to the scratch worktree /tmp/dev, run the check there, undo.
PATCH=$(realpath "$1"); ID=$2; TIER=${3:-quick}
git -C /tmp/dev apply "$PATCH" || { echo "patch does not apply"; exit 3; }
/verif/tools/devcheck.sh "$ID" --tier "$TIER" 2>&1 | grep -v "WARNING" | cut -c1-300 | tail -${LINES_OUT:-8}
RC=${PIPESTATUS[0]}
git -C /tmp/dev checkout -- .
echo "exit=$RC"
