"""Compare a junit xml against BASELINE.json stable_pass."""
import json, sys
import xml.etree.ElementTree as ET
base = set(json.load(open('/root/.vp/BASELINE.json'))['stable_pass'])
root = ET.parse(sys.argv[1]).getroot()
passed = set(); failed = set()
for tc in root.iter('testcase'):
    key = f"{tc.get('classname')}::{tc.get('name')}"
    bad = any(ch.tag in ('failure', 'error', 'skipped') for ch in tc)
    (failed if bad else passed).add(key)
missing = sorted(base - passed)
print(f"passed={len(passed)} failed={len(failed)} baseline={len(base)} baseline_not_passing={len(missing)}")
for m in missing[:40]:
    print("  MISSING", m)
sys.exit(1 if missing else 0)
