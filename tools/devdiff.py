"""Development only: differential run of a check on a seed's own base commit (scratch worktree /tmp/dev).

usage: devdiff.py <base-commit> <ID> <seed> [<seed> ...]
Runs the quick check on /tmp/dev at <base-commit>, then again with each seed's patch applied, and compares the sets of
reported violations (scenario|obligation). Used for seeds whose patch no longer applies to the repaired tree: the present
check must report nothing new for a behaviour-preserving refactor, and something new for a breaking change.
"""
import json, re, subprocess, sys
base, pid, seeds = sys.argv[1], sys.argv[2], sys.argv[3:]
def sh(c):
    return subprocess.run(c, shell=True, capture_output=True, text=True)
def run():
    r = sh(f"/verif/tools/devcheck.sh {pid} --tier quick")
    keys = set()
    for l in r.stdout.split("\n"):
        m = re.match(r"\s+scenario=(.*?) obligation=(.*?) witness=", l)
        if m:
            keys.add(m.group(1) + "|" + m.group(2))
    herr = sum(1 for l in r.stdout.split("\n") if l.startswith("HARNESS-ERROR"))
    summ = next((l for l in r.stdout.split("\n") if l.startswith(f"{pid} quick")), "")
    return keys, herr, summ
sh(f"git -C /tmp/dev reset -q --hard {base}")
b_keys, b_herr, b_sum = run()
print("base", base, len(b_keys), "violations,", b_herr, "harness errors |", b_sum[:160], flush=True)
for sd in seeds:
    d = f"/verif/seeded/{sd}"
    sh(f"git -C /tmp/dev reset -q --hard {base}")
    ap = sh(f"git -C /tmp/dev apply {d}/patch.diff")
    if ap.returncode != 0 and __import__('os').path.exists(f"{d}/patch_rebased.diff"):
        ap = sh(f"git -C /tmp/dev apply {d}/patch_rebased.diff")
    if ap.returncode != 0:
        print(sd, "does not apply to", base); continue
    k, h, s_ = run()
    new, gone = sorted(k - b_keys), sorted(b_keys - k)
    print(sd, "new:", len(new), "gone:", len(gone), "harness errors:", h, "|", (new[:2] or gone[:2]), flush=True)
    meta = json.load(open(f"{d}/meta.json"))
    meta["differential_on_own_base"] = {"base_commit": base, "why": "the patch conflicts with repairs made to /repo after the seed was written; the present check was run on the seed's own base with and without the patch",
                                        "base_violations": len(b_keys), "new_with_patch": len(new), "gone_with_patch": len(gone), "harness_errors_with_patch": h,
                                        "examples_new": new[:3]}
    json.dump(meta, open(f"{d}/meta.json", "w"), indent=1)
sh(f"git -C /tmp/dev reset -q --hard $(git -C /repo rev-parse HEAD)")
