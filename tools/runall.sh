#!/bin/bash
# tools/runall.sh [quick|thorough] [IDs...]  — run every check, print one line each
TIER=${1:-quick}; shift
IDS=${@:-C01 C02 C03 C04 C05 C06 C07 C08 C09 C10 C11 C12 C13 C14 C15 C16 C17 C18 C19 C20}
for id in $IDS; do
  s=$(date +%s)
  out=$(timeout ${RUN_TIMEOUT:-3600} "$(dirname "$0")/../check" $id --tier $TIER 2>&1); rc=$?
  e=$(date +%s)
  echo "$id rc=$rc $((e-s))s | $(echo "$out" | grep -v WARNING | grep "$id $TIER:" | cut -c1-200)"
  echo "$out" | grep "VIOLATION\|HARNESS-ERROR\|INCONCLUSIVE\|BOUND-HIT" | head -5 | cut -c1-250
done
