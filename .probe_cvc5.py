import z3, cvc5, time
x,y=z3.Reals('x y')
f=z3.Function('f',z3.RealSort(),z3.RealSort())
s=z3.Solver()
s.add(x>0,y>x, f(x)*y == 3, z3.Not(f(x)*y*2 == 6))
txt=s.to_smt2()
print(txt)
def run(txt, tlimit=5000):
    slv=cvc5.Solver()
    slv.setOption("tlimit-per", str(tlimit))
    slv.setLogic("ALL")
    p=cvc5.InputParser(slv)
    p.setStringInput(cvc5.InputLanguage.SMT_LIB_2_6, txt, "q")
    sm=p.getSymbolManager()
    res=None
    while True:
        cmd=p.nextCommand()
        if cmd.isNull(): break
        out=cmd.invoke(slv, sm)
        if out.strip(): res=out.strip()
    return res
t=time.time(); print(run(txt), time.time()-t)
