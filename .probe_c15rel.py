import sys, time, logging
logging.disable(logging.CRITICAL)
from vf.props.c15 import Steady
from vf import common
scs = [Steady(1, True, False, False, True, 0, drift=True), Steady(1, True, True, True, False, 0, drift=True),
       Steady(1, True, False, False, True, 3), Steady(1, True, True, True, True, 3),
       Steady(1, False, False, False, True, 3)]
for sc in scs:
    sc.timeout_ms = 10000
    sc.max_seconds = 200
    t=time.time()
    r = common.run_scenario(sc)
    print(sc.key, round(time.time()-t,1), {k: r[k] for k in ("paths","obligations","discharged","unknown","bound_hit","harness_errors","validated")})
    for v in r["violations"][:3]: print(v)
