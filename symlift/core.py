"""symlift core: z3 terms wrapped in Python objects, pushed through unmodified code.

Dynamic symbolic execution by re-execution: ``SymBool.__bool__`` asks the engine, the engine
checks both polarities with z3, follows one and records the alternative.  See DESIGN.md section 1.
"""
from __future__ import annotations

import os as _os
import time as _time
from fractions import Fraction

import z3


class PathAbort(BaseException):
    """Current path is infeasible / cut (never caught by code under test: BaseException)."""


class BoundHit(BaseException):
    """A stated bound (decisions per path, paths per scenario) was exceeded."""


class LiftError(TypeError):
    """A symbolic value reached code that needs a concrete machine value."""


class SolverUnknown(BaseException):
    pass


ENGINE: "Engine | None" = None


def engine() -> "Engine":
    if ENGINE is None:
        raise RuntimeError("no active symlift engine")
    return ENGINE


class Path:
    __slots__ = ("pc", "assumed", "value", "exc", "model", "choices", "notes")

    def __init__(self):
        self.pc = []
        self.assumed = []
        self.value = None
        self.exc = None
        self.model = None
        self.choices = []
        self.notes = []


class Engine:
    def __init__(self, max_decisions=400, max_paths=4000, timeout_ms=20000, max_seconds=None):
        self.max_seconds = max_seconds  # wall-clock budget of one exploration (a bound: exceeding it is reported, never a pass)
        self.t0 = None
        self.aborted = 0
        # second solver: every `cross_every`-th obligation that z3 proves (unsat) is re-asked to cvc5 from z3's own SMT-LIB dump
        self.cross_every = int(_os.environ.get("VERIF_CROSS_EVERY", "0") or 0)
        self.cross = {"asked": 0, "agree": 0, "cvc5_unknown": 0, "errors": 0, "disagree": [], "time_s": 0.0, "first_error": None}
        self._n_proved = 0
        self.solver = z3.Solver()
        self.solver.set("timeout", timeout_ms)
        self.timeout_ms = timeout_ms
        self.max_decisions = max_decisions
        self.max_paths = max_paths
        self.decisions = []  # [kind, value, alternatives]
        self.pos = 0
        self.path = Path()
        self.model = None
        self.queries = 0
        self.n_sat = 0
        self.n_unsat = 0
        self.n_unknown = 0
        self.solver_time = 0.0
        self.branch_decisions = 0
        self.assumed_nonzero = 0
        self.base = []  # global assumptions valid on all paths (axioms)
        self.uf_apps = {}

    # ---------------------------------------------------------------- solver helpers
    def _retry(self, assertions, extra=()):
        """z3's non-linear heuristics are sensitive to term numbering: retry an `unknown` on fresh solvers."""
        for seed in (1, 7, 23):
            s2 = z3.Solver()
            s2.set("timeout", self.timeout_ms)
            s2.set("random_seed", seed)
            for a in assertions:
                s2.add(a)
            self.queries += 1
            t0 = _time.time()
            r = s2.check(*extra)
            self.solver_time += _time.time() - t0
            if str(r) != "unknown":
                return str(r), (s2.model() if str(r) == "sat" else None)
        return "unknown", None

    def _probe(self, assertions):
        """After `unknown`: look for a counterexample on a small grid of values (halves, small integers, signs).

        Every candidate is itself decided by the solver (a ground query); a hit is an ordinary `sat` with a model and
        is replayed like any other. A miss leaves the answer `unknown` - probing never turns into a proof."""
        consts = {}
        stack = list(assertions)
        seen = set()
        while stack and len(seen) < 20000:
            a = stack.pop()
            if a.get_id() in seen:
                continue
            seen.add(a.get_id())
            if z3.is_const(a) and a.decl().kind() == z3.Z3_OP_UNINTERPRETED and z3.is_real(a):
                consts[a.get_id()] = a
            else:
                stack.extend(a.children())
        vs = list(consts.values())
        if not vs or len(vs) > 12:
            return "unknown", None
        grid = ["1/2", "3/2", "5/2", "-1/2", "0", "1", "2", "-1", "7/2", "1/4"]
        cands = [[g] * len(vs) for g in grid]
        for i in range(len(vs)):  # one variable off the diagonal
            for g in ("1/2", "5/2", "-1/2"):
                c = ["1"] * len(vs)
                c[i] = g
                cands.append(c)
        for c in cands[:40]:
            s2 = z3.Solver()
            s2.set("timeout", 2000)
            for a in assertions:
                s2.add(a)
            for v, g in zip(vs, c):
                s2.add(v == z3.RealVal(g))
            self.queries += 1
            if str(s2.check()) == "sat":
                return "sat", s2.model()
        return "unknown", None

    def _check(self, *extra):
        self.queries += 1
        t0 = _time.time()
        r = self.solver.check(*extra)
        self.solver_time += _time.time() - t0
        s = str(r)
        self._retry_model = None
        if s == "unknown":
            s, self._retry_model = self._retry(list(self.solver.assertions()), extra)
        if s == "sat":
            self.n_sat += 1
        elif s == "unsat":
            self.n_unsat += 1
        else:
            self.n_unknown += 1
        return s

    def _last_model(self):
        return self._retry_model if getattr(self, "_retry_model", None) is not None else self.solver.model()

    def _eval_under_model(self, cond):
        if self.model is None:
            return None
        try:
            v = self.model.eval(cond, model_completion=True)
        except z3.Z3Exception:
            return None
        if z3.is_true(v):
            return True
        if z3.is_false(v):
            return False
        return None

    # ---------------------------------------------------------------- branching
    def branch(self, cond) -> bool:
        cond = z3.simplify(cond)
        if z3.is_true(cond):
            return True
        if z3.is_false(cond):
            return False
        if self.pos < len(self.decisions):
            ent = self.decisions[self.pos]
            kind, d = ent[0], ent[1]
            if kind != "b":
                raise RuntimeError("non-deterministic re-execution (branch vs choice)")
            self.pos += 1
            c = cond if d else z3.Not(cond)
            self.path.pc.append(c)
            self.solver.add(c)
            if self.pos == len(self.decisions) and len(ent) > 3 and ent[3] is not None:
                self.model = ent[3]
                ent[3] = None
            return d
        if len(self.decisions) >= self.max_decisions:
            raise BoundHit(f"more than {self.max_decisions} decisions on one path")
        self._check_clock()
        self.branch_decisions += 1
        guess = self._eval_under_model(cond)
        if guess is None:
            r = self._check(cond)
            if r == "unknown":
                raise SolverUnknown(str(cond)[:200])
            if r == "sat":
                guess = True
                self.model = self._last_model()
            else:
                guess = False  # cond infeasible => not cond must hold (PC is sat)
                self.decisions.append(["b", False, []])
                self.pos += 1
                c = z3.Not(cond)
                self.path.pc.append(c)
                self.solver.add(c)
                return False
        other = z3.Not(cond) if guess else cond
        r = self._check(other)
        if r == "unknown":
            raise SolverUnknown(str(cond)[:200])
        alts = [(not guess)] if r == "sat" else []
        self.decisions.append(["b", guess, alts, self._last_model() if r == "sat" else None])
        self.pos += 1
        c = cond if guess else z3.Not(cond)
        self.path.pc.append(c)
        self.solver.add(c)
        return guess

    def _check_clock(self):
        if self.max_seconds is not None and self.t0 is not None and _time.time() - self.t0 > self.max_seconds:
            raise BoundHit(f"exploration exceeded its wall-clock budget of {self.max_seconds} s")

    def choose(self, n: int, label: str = "") -> int:
        """Structural selector: explore 0..n-1 exhaustively (no solver involved)."""
        if n <= 0:
            raise PathAbort()
        if self.pos < len(self.decisions):
            kind, d = self.decisions[self.pos][:2]
            if kind != "c":
                raise RuntimeError("non-deterministic re-execution (choice vs branch)")
            self.pos += 1
            self.path.choices.append((label, d))
            return d
        self.decisions.append(["c", 0, list(range(1, n))])
        self.pos += 1
        self.path.choices.append((label, 0))
        return 0

    def assume(self, cond, kind="assume"):
        """Add an assumption to the path; abort the path if it becomes infeasible."""
        cond = z3.simplify(cond) if not isinstance(cond, bool) else z3.BoolVal(cond)
        if z3.is_true(cond):
            return
        if z3.is_false(cond):
            raise PathAbort()
        self.path.pc.append(cond)
        self.path.assumed.append((kind, cond))
        self.solver.add(cond)
        g = self._eval_under_model(cond)
        if g is True:
            return
        r = self._check()
        if r == "unsat":
            raise PathAbort()
        if r == "unknown":
            raise SolverUnknown("assume " + str(cond)[:200])
        self.model = self._last_model()

    def note(self, s):
        self.path.notes.append(s)

    # ---------------------------------------------------------------- exploration
    def explore(self, fn, catch=(Exception,)):
        """Run fn() along every feasible path. Returns list[Path]."""
        global ENGINE
        prev = ENGINE
        ENGINE = self
        paths = []
        self.paths_so_far = paths  # kept for diagnosis when a bound stops the exploration
        self.t0 = _time.time()
        try:
            while True:
                self._check_clock()
                self.pos = 0
                self.path = Path()
                self.solver.reset()
                self.solver.set("timeout", self.timeout_ms)
                for b in self.base:
                    self.solver.add(b)
                self.model = None
                # the model for the new prefix is recomputed lazily
                try:
                    try:
                        self.path.value = fn()
                    except catch as e:  # exceptions of the code under test are results
                        if isinstance(e, LiftError):
                            raise
                        self.path.exc = e
                    paths.append(self.path)
                    if len(paths) > self.max_paths:
                        raise BoundHit(f"more than {self.max_paths} paths")
                except PathAbort:
                    self.aborted += 1
                    if self.aborted > 20 * self.max_paths:
                        raise BoundHit(f"more than {20 * self.max_paths} infeasible path prefixes") from None
                # backtrack
                while self.decisions and not self.decisions[-1][2]:
                    self.decisions.pop()
                if not self.decisions:
                    break
                last = self.decisions[-1]
                last[1] = last[2].pop(0)
        finally:
            ENGINE = prev
        return paths

    # ---------------------------------------------------------------- queries on a finished path
    def check_valid(self, path: Path, claim, extra=(), timeout_ms=None):
        """Is `claim` valid under the path condition?  returns ('unsat'|'sat'|'unknown', model)."""
        s = z3.Solver()
        s.set("timeout", timeout_ms or self.timeout_ms)
        for b in self.base:
            s.add(b)
        for c in path.pc:
            s.add(c)
        for c in extra:
            s.add(c)
        s.add(z3.Not(claim))
        self.queries += 1
        t0 = _time.time()
        r = str(s.check())
        self.solver_time += _time.time() - t0
        if r == "unknown" and timeout_ms is None:
            r, m2 = self._probe(list(s.assertions()))  # cheap ground queries first
            if r == "unknown":
                r, m2 = self._retry(list(s.assertions()))
            if r == "sat":
                self.n_sat += 1
                return r, m2
        if r == "sat":
            self.n_sat += 1
            return r, s.model()
        if r == "unsat":
            self.n_unsat += 1
            self._n_proved += 1
            if self.cross_every and self._n_proved % self.cross_every == 1 % self.cross_every:
                self._cross_check(s)
        else:
            self.n_unknown += 1
        return r, None

    def _cross_check(self, s):
        """Re-ask cvc5 a query z3 answered `unsat`, from z3's SMT-LIB dump of the very same assertions."""
        t0 = _time.time()
        self.cross["asked"] += 1
        try:
            txt = s.to_smt2()
            ans = cvc5_check(txt, 2000)
        except Exception as e:  # noqa: BLE001 - parser / option errors of the second solver are counted, not fatal
            self.cross["errors"] += 1
            if self.cross["first_error"] is None:
                self.cross["first_error"] = f"{type(e).__name__}: {e}"[:300]
            ans = None
        self.cross["time_s"] += _time.time() - t0
        if ans == "unsat":
            self.cross["agree"] += 1
        elif ans == "sat":
            self.cross["disagree"].append(txt[:4000])
        elif ans is not None:
            self.cross["cvc5_unknown"] += 1

    def path_model(self, path: Path, extra=()):
        s = z3.Solver()
        s.set("timeout", self.timeout_ms)
        for b in self.base:
            s.add(b)
        for c in path.pc:
            s.add(c)
        for c in extra:
            s.add(c)
        self.queries += 1
        t0 = _time.time()
        r = str(s.check())
        self.solver_time += _time.time() - t0
        if r == "sat":
            self.n_sat += 1
            return s.model()
        if r == "unsat":
            self.n_unsat += 1
        else:
            self.n_unknown += 1
        return None


def cvc5_check(smt2_text, tlimit_ms=2000):
    """check-sat of an SMT-LIB2 script with cvc5 (python wheel); returns 'sat' | 'unsat' | 'unknown'."""
    import cvc5

    slv = cvc5.Solver()
    slv.setOption("tlimit-per", str(tlimit_ms))
    slv.setLogic("ALL")
    p = cvc5.InputParser(slv)
    p.setStringInput(cvc5.InputLanguage.SMT_LIB_2_6, smt2_text, "query")
    sm = p.getSymbolManager()
    res = "unknown"
    while True:
        cmd = p.nextCommand()
        if cmd.isNull():
            break
        out = cmd.invoke(slv, sm).strip()
        if out in ("sat", "unsat", "unknown"):
            res = out
    return res


# ------------------------------------------------------------------------------------- terms

def to_term(x):
    """Python/numpy number -> exact z3 Real term; SymReal -> its term; otherwise None."""
    if isinstance(x, SymReal):
        return x.t
    if isinstance(x, SymBool):
        return z3.If(x.t, z3.RealVal(1), z3.RealVal(0))
    if isinstance(x, bool):
        return z3.RealVal(int(x))
    if isinstance(x, int):
        return z3.RealVal(x)
    if isinstance(x, float):
        if x != x or x in (float("inf"), float("-inf")):
            raise LiftError(f"non-finite float {x}")
        f = Fraction(x)
        return z3.RealVal(f"{f.numerator}/{f.denominator}")
    if isinstance(x, Fraction):
        return z3.RealVal(f"{x.numerator}/{x.denominator}")
    tn = type(x).__module__
    if tn == "numpy":
        import numpy as np

        if isinstance(x, (np.floating, np.integer, np.bool_)):
            return to_term(x.item())
        if isinstance(x, np.ndarray) and x.ndim == 0:
            return to_term(x.item())
    return None


_UFS = {}


def uf(name, arity=1):
    key = (name, arity)
    if key not in _UFS:
        _UFS[key] = z3.Function("uf_" + name, *([z3.RealSort()] * (arity + 1)))
    return _UFS[key]


def _int_like(o):
    if isinstance(o, bool):
        return None
    if isinstance(o, int):
        return o
    if isinstance(o, float) and o == int(o) and abs(o) <= 16:
        return int(o)
    tn = type(o).__module__
    if tn == "numpy":
        try:
            v = o.item()
        except Exception:
            return None
        return _int_like(v)
    return None


class SymBool:
    __slots__ = ("t",)

    def __init__(self, t):
        self.t = t

    def __bool__(self):
        t = z3.simplify(self.t)
        if z3.is_true(t):
            return True
        if z3.is_false(t):
            return False
        return engine().branch(t)

    def __invert__(self):
        return SymBool(z3.Not(self.t))

    @staticmethod
    def _b(o):
        if isinstance(o, SymBool):
            return o.t
        if isinstance(o, (bool, int)) or type(o).__name__ in ("bool_", "bool"):
            return z3.BoolVal(bool(o))
        return None

    def __and__(self, o):
        b = SymBool._b(o)
        if b is None:
            return NotImplemented
        return SymBool(z3.And(self.t, b))

    def __or__(self, o):
        b = SymBool._b(o)
        if b is None:
            return NotImplemented
        return SymBool(z3.Or(self.t, b))

    def __xor__(self, o):
        b = SymBool._b(o)
        if b is None:
            return NotImplemented
        return SymBool(z3.Xor(self.t, b))

    __rand__ = __and__
    __ror__ = __or__
    __rxor__ = __xor__

    def __eq__(self, o):
        b = SymBool._b(o)
        if b is None:
            return NotImplemented
        return SymBool(self.t == b)

    def __ne__(self, o):
        b = SymBool._b(o)
        if b is None:
            return NotImplemented
        return SymBool(self.t != b)

    def __hash__(self):
        return 1

    def __repr__(self):
        return f"SymBool({self.t})"

    # arithmetic use of booleans (True == 1)
    def _r(self):
        return SymReal(z3.If(self.t, z3.RealVal(1), z3.RealVal(0)))

    def __mul__(self, o):
        return self._r() * o

    __rmul__ = __mul__

    def __add__(self, o):
        return self._r() + o

    __radd__ = __add__


class SymReal:
    __slots__ = ("t",)

    def __init__(self, t):
        self.t = t

    # -- helpers
    def _bin(self, o, f):
        if isinstance(o, float) and o != o:
            return o  # NaN propagates
        ot = to_term(o)
        if ot is None:
            return NotImplemented
        return SymReal(f(self.t, ot))

    def _rbin(self, o, f):
        if isinstance(o, float) and o != o:
            return o
        ot = to_term(o)
        if ot is None:
            return NotImplemented
        return SymReal(f(ot, self.t))

    def __add__(s, o):
        return s._bin(o, lambda a, b: a + b)

    def __radd__(s, o):
        return s._rbin(o, lambda a, b: a + b)

    def __sub__(s, o):
        return s._bin(o, lambda a, b: a - b)

    def __rsub__(s, o):
        return s._rbin(o, lambda a, b: a - b)

    def __mul__(s, o):
        return s._bin(o, lambda a, b: a * b)

    def __rmul__(s, o):
        return s._rbin(o, lambda a, b: a * b)

    @staticmethod
    def _div(a, b):
        b_s = z3.simplify(b)
        if z3.is_rational_value(b_s):
            if b_s.numerator_as_long() == 0:
                raise ZeroDivisionError("division by zero")
        else:
            e = engine()
            e.assumed_nonzero += 1
            e.assume(b != 0, kind="nonzero")
        return a / b

    def __truediv__(s, o):
        return s._bin(o, SymReal._div)

    def __rtruediv__(s, o):
        return s._rbin(o, SymReal._div)

    def __neg__(s):
        return SymReal(-s.t)

    def __pos__(s):
        return s

    def __abs__(s):
        return SymReal(z3.If(s.t >= 0, s.t, -s.t))

    # integer-valued functions (values stay reals: mxlpy only ever multiplies them into rates)
    def __floor__(s):
        return SymReal(z3.ToReal(z3.ToInt(s.t)))

    def __ceil__(s):
        return SymReal(-z3.ToReal(z3.ToInt(-s.t)))

    def __trunc__(s):
        return SymReal(z3.If(s.t >= 0, z3.ToReal(z3.ToInt(s.t)), -z3.ToReal(z3.ToInt(-s.t))))

    def __round__(s, ndigits=None):
        # Python / numpy round halves to the nearest even integer
        if ndigits not in (None, 0):
            raise LiftError("round with ndigits")
        n = z3.ToInt(s.t)
        frac = s.t - z3.ToReal(n)
        half = z3.RealVal("1/2")
        return SymReal(z3.If(frac < half, z3.ToReal(n), z3.If(frac > half, z3.ToReal(n) + 1, z3.If(n % 2 == 0, z3.ToReal(n), z3.ToReal(n) + 1))))

    def __pow__(s, o, mod=None):
        n = _int_like(o)
        if n is not None:
            return _ipow(s, n)
        if isinstance(o, float) and o == 0.5:
            return s.sqrt()
        ot = to_term(o)
        if ot is None:
            return NotImplemented
        return SymReal(uf("pow", 2)(s.t, ot))

    def __rpow__(s, o):
        ot = to_term(o)
        if ot is None:
            return NotImplemented
        return SymReal(uf("pow", 2)(ot, s.t))

    def _cmp(s, o, f):
        if isinstance(o, float) and o != o:
            return False
        if isinstance(o, float) and o in (float("inf"), float("-inf")):
            return bool(f(0.0, o))  # every real compares with an infinity like 0 does
        ot = to_term(o)
        if ot is None:
            return NotImplemented
        return SymBool(f(s.t, ot))

    def __lt__(s, o):
        return s._cmp(o, lambda a, b: a < b)

    def __le__(s, o):
        return s._cmp(o, lambda a, b: a <= b)

    def __gt__(s, o):
        return s._cmp(o, lambda a, b: a > b)

    def __ge__(s, o):
        return s._cmp(o, lambda a, b: a >= b)

    def __eq__(s, o):
        ot = to_term(o)
        if ot is None:
            return False if not isinstance(o, SymReal) else NotImplemented
        return SymBool(s.t == ot)

    def __ne__(s, o):
        ot = to_term(o)
        if ot is None:
            return True
        return SymBool(s.t != ot)

    def __hash__(s):
        return 0

    def __bool__(s):
        return engine().branch(s.t != 0)

    def __repr__(s):
        return f"Sym({z3.simplify(s.t)})"

    def __float__(s):
        raise LiftError("float() of a symbolic value")

    def __int__(s):
        raise LiftError("int() of a symbolic value")

    def __index__(s):
        raise LiftError("index() of a symbolic value")

    def __copy__(s):
        return s

    def __deepcopy__(s, memo):
        return s

    def __reduce__(s):
        raise LiftError("pickling of a symbolic value")

    # numpy object-dtype ufuncs call these methods
    def sqrt(s):
        # Python semantics: outside the domain the call raises (forks on the sign)
        if bool(SymBool(s.t < 0)):
            raise ValueError("math domain error")
        return SymNorm(s.t)

    def exp(s):
        r = uf("exp")(s.t)
        engine().assume(r > 0, kind="axiom")
        return SymReal(r)

    def log(s):
        if bool(SymBool(s.t <= 0)):
            raise ValueError("math domain error")
        return SymReal(uf("log")(s.t))

    def log10(s):
        if bool(SymBool(s.t <= 0)):
            raise ValueError("math domain error")
        # defined through the natural logarithm (with the float constant ln 10, as math.log(x, 10) computes it),
        # so that log10(x), log(x, 10) and log(x) / log(10) are the same term
        import math as _m

        return SymReal(uf("log")(s.t)) / _m.log(10)

    def log1p(s):
        if bool(SymBool(s.t <= -1)):
            raise ValueError("math domain error")
        return SymReal(uf("log")(1 + s.t))

    def sin(s):
        return SymReal(uf("sin")(s.t))

    def cos(s):
        return SymReal(uf("cos")(s.t))

    def tan(s):
        return SymReal(uf("tan")(s.t))

    def tanh(s):
        return SymReal(uf("tanh")(s.t))

    def conjugate(s):
        return s

    def square(s):
        return s * s

    def is_integer(s):
        return False

    @property
    def real(s):
        return s

    @property
    def imag(s):
        return 0.0


def numden(t):
    """Rational normal form of a z3 real term built from + - * / over arbitrary leaves: (numerator, denominator)."""
    cache = {}

    def go(a):
        k = a.get_id()
        if k in cache:
            return cache[k]
        r = _go(a)
        cache[k] = r
        return r

    one = z3.RealVal(1)

    def _go(a):
        if not z3.is_app(a):
            return a, one
        kind = a.decl().kind()
        ch = a.children()
        if kind == z3.Z3_OP_DIV:
            (n1, d1), (n2, d2) = go(ch[0]), go(ch[1])
            return n1 * d2, d1 * n2
        if kind == z3.Z3_OP_MUL:
            n, d = one, one
            for c in ch:
                cn, cd = go(c)
                n, d = n * cn, d * cd
            return n, d
        if kind in (z3.Z3_OP_ADD, z3.Z3_OP_SUB):
            parts = [go(c) for c in ch]
            if all(z3.eq(pd_, one) for _, pd_ in parts):
                n = parts[0][0]
                for pn, _ in parts[1:]:
                    n = n + pn if kind == z3.Z3_OP_ADD else n - pn
                return n, one
            n, d = parts[0]
            for pn, pd_ in parts[1:]:
                n = n * pd_ + pn * d if kind == z3.Z3_OP_ADD else n * pd_ - pn * d
                d = d * pd_
            return n, d
        if kind == z3.Z3_OP_UMINUS:
            n, d = go(ch[0])
            return -n, d
        return a, one

    n, d = go(t)
    return n, d


class SymNorm(SymReal):
    """Euclidean norm of a symbolic vector: comparisons are decided on the squares (no sqrt)."""

    __slots__ = ("sq", "one")

    def __init__(self, sq_term, one=None):
        self.sq = sq_term
        self.one = one  # norm of a one-component vector [x]: |x|, compared without squaring (one degree lower for the solver)
        # the term itself is an unconstrained uf_sqrt application: mxlpy only ever compares a norm with
        # a tolerance, and comparisons are decided on the squares below (no axiom needed, no sqrt)
        SymReal.__init__(self, uf("sqrt")(sq_term))

    def _axiom(self):
        """arithmetic use (not a comparison): constrain the uninterpreted root by its defining property"""
        e = engine()
        key = ("sqrt_axiom", self.t.get_id())
        if key not in e.uf_apps:
            e.uf_apps[key] = True
        # assumptions are per path: (re-)assert on every use, the engine deduplicates nothing but it is cheap
        e.assume(z3.And(self.t >= 0, self.t * self.t == self.sq), kind="axiom")

    def _bin(self, o, f):
        self._axiom()
        if isinstance(o, SymNorm):
            o._axiom()
        return SymReal._bin(self, o, f)

    def _rbin(self, o, f):
        self._axiom()
        return SymReal._rbin(self, o, f)

    def __neg__(self):
        self._axiom()
        return SymReal(-self.t)

    def _ncmp(self, o, strict, less):
        if isinstance(o, float) and o in (float("inf"), float("-inf")):
            return (o > 0) if less else (o < 0)
        if isinstance(o, SymNorm):  # sqrt is monotone: compare the radicands
            if less:
                return SymBool(self.sq < o.sq if strict else self.sq <= o.sq)
            return SymBool(self.sq > o.sq if strict else self.sq >= o.sq)
        ot = to_term(o)
        if ot is None:
            return NotImplemented
        if self.one is not None:
            # |n/d| < o  <=>  o > 0 and |n| < o |d|   (d != 0 is the engine's standing assumption on denominators)
            n, d = numden(z3.simplify(self.one))
            an = z3.If(n >= 0, n, -n)
            ad = z3.If(d >= 0, d, -d)
            lhs, rhs = an, ot * ad
            if less:
                return SymBool(z3.And(ot > 0 if strict else ot >= 0, lhs < rhs if strict else lhs <= rhs))
            return SymBool(z3.Or(ot < 0, lhs > rhs if strict else lhs >= rhs))
        # clear denominators: sq = n/d with d a product of (non-zero) denominators; compare n*d with o^2*d^2
        n, d = numden(z3.simplify(self.sq))
        lhs, rhs = (n * d, ot * ot * d * d) if not z3.eq(d, z3.RealVal(1)) else (self.sq, ot * ot)
        if less:  # norm < o  /  norm <= o
            return SymBool(z3.And(ot > 0 if strict else ot >= 0, lhs < rhs if strict else lhs <= rhs))
        # norm > o / norm >= o
        return SymBool(z3.Or(ot < 0, lhs > rhs if strict else lhs >= rhs))

    def __lt__(s, o):
        return s._ncmp(o, True, True)

    def __le__(s, o):
        return s._ncmp(o, False, True)

    def __gt__(s, o):
        return s._ncmp(o, True, False)

    def __ge__(s, o):
        return s._ncmp(o, False, False)

    __hash__ = SymReal.__hash__


def _ipow(s, n):
    if n == 0:
        return SymReal(z3.RealVal(1))
    if n < 0:
        return 1 / _ipow(s, -n)
    if n > 16:
        return SymReal(uf("pow", 2)(s.t, z3.RealVal(n)))
    r = s.t
    for _ in range(n - 1):
        r = r * s.t
    return SymReal(r)


def real(name):
    return SymReal(z3.Real(name))


def is_sym(x):
    return isinstance(x, (SymReal, SymBool))


def term_has_uf(t):
    """Does the z3 term contain an uninterpreted function application (not a constant)?"""
    seen = set()
    stack = [t]
    while stack:
        a = stack.pop()
        i = a.get_id()
        if i in seen:
            continue
        seen.add(i)
        if z3.is_app(a):
            d = a.decl()
            if d.kind() == z3.Z3_OP_UNINTERPRETED and a.num_args() > 0:
                return True
            stack.extend(a.children())
    return False


def term_symbols(t):
    """Names of the uninterpreted constants occurring in t."""
    seen = set()
    out = set()
    stack = [t]
    while stack:
        a = stack.pop()
        i = a.get_id()
        if i in seen:
            continue
        seen.add(i)
        if z3.is_app(a):
            d = a.decl()
            if d.kind() == z3.Z3_OP_UNINTERPRETED and a.num_args() == 0:
                out.add(d.name())
            stack.extend(a.children())
    return out


def model_value(model, t):
    """Evaluate a real-sorted z3 term under a model -> Fraction (None if not a numeral)."""
    v = model.eval(t, model_completion=True)
    v = z3.simplify(v)
    if z3.is_rational_value(v):
        return Fraction(v.numerator_as_long(), v.denominator_as_long())
    if z3.is_algebraic_value(v):
        a = v.approx(30)
        return Fraction(a.numerator_as_long(), a.denominator_as_long())
    return None
