"""Environment model: thin proxies for numpy / pandas / math / builtins (DESIGN.md 1.2).

Every proxy delegates to the real library when no symbolic value is involved.
"""
from __future__ import annotations

import builtins
import math as _math

import numpy as _np
import pandas as _pd
import z3

from . import core as S
from .core import SymBool, SymReal


def has_sym(xs):
    if isinstance(xs, (SymReal, SymBool)):
        return True
    if isinstance(xs, (int, float, str, bytes)) or xs is None:
        return False
    try:
        if isinstance(xs, _np.ndarray):
            if xs.dtype != object:
                return False
            return any(isinstance(i, (SymReal, SymBool)) for i in xs.ravel())
        if isinstance(xs, (_pd.Series, _pd.DataFrame, _pd.Index)):
            return has_sym(xs.to_numpy())
        if isinstance(xs, dict):
            return any(has_sym(v) for v in xs.values())
        return any(has_sym(i) for i in xs)
    except TypeError:
        return False


class _SFloatMeta(type):
    """`isinstance(x, float)` in a module whose `float` is the shim: true for real floats and for symbolic reals."""

    def __instancecheck__(cls, obj):
        return isinstance(obj, (float, SymReal))

    def __subclasscheck__(cls, sub):
        return issubclass(sub, float)


class sfloat(float, metaclass=_SFloatMeta):
    """`float` shim: passes symbolic scalars through, otherwise builtin float."""

    def __new__(cls, x=0.0):
        if isinstance(x, SymReal):
            return x
        if isinstance(x, SymBool):
            return x._r()
        return float(x)


class sint(int):
    def __new__(cls, x=0, *a):
        if isinstance(x, SymReal):
            return x
        return int(x, *a)


def _members(cls):
    """the classes named by an isinstance() second argument (class, tuple, union), with the shims mapped back"""
    import types

    if isinstance(cls, tuple):
        out = []
        for c in cls:
            out += _members(c)
        return out
    if isinstance(cls, types.UnionType):
        out = []
        for c in cls.__args__:
            out += _members(c)
        return out
    if cls is sfloat:
        return [float]
    if cls is sint:
        return [int]
    return [cls]


def sisinstance(obj, cls):
    mem = _members(cls)
    if isinstance(obj, SymReal):
        return float in mem or SymReal in mem or object in mem
    return isinstance(obj, tuple(mem))


def _isf(d):
    return d is float or d is sfloat or d is _np.float64 or d == "float" or d == "float64"


def fold_sum(xs):
    r = 0.0
    for i in xs:
        r = r + i
    return r


class PDProxy:
    def __init__(self, real=_pd):
        self._r = real

    def __getattr__(self, k):
        return getattr(self._r, k)

    def Series(self, data=None, *a, **kw):
        if "dtype" in kw and _isf(kw["dtype"]) and has_sym(data):
            kw = dict(kw)
            kw["dtype"] = object
        elif "dtype" in kw and _isf(kw["dtype"]):
            kw = dict(kw)
            kw["dtype"] = float
        return self._r.Series(data, *a, **kw)

    def DataFrame(self, data=None, *a, **kw):
        if "dtype" in kw and _isf(kw["dtype"]):
            kw = dict(kw)
            if _deep_has_sym(data):
                kw["dtype"] = object
            else:
                kw["dtype"] = float
        return self._r.DataFrame(data, *a, **kw)


def _deep_has_sym(data):
    if isinstance(data, dict):
        return any(_deep_has_sym(v) for v in data.values())
    return has_sym(data)


class _Linalg:
    def __init__(self, real):
        self._r = real

    def __getattr__(self, k):
        return getattr(self._r, k)

    def norm(self, x, ord=None, axis=None, **kw):
        if has_sym(x) and axis is None and ord in (None, 2):
            comps = list(_np.asarray(x, dtype=object).ravel())
            sq = fold_sum([i * i for i in comps])
            if isinstance(sq, SymReal):
                return S.SymNorm(sq.t, one=comps[0].t if len(comps) == 1 and isinstance(comps[0], SymReal) else None)
            return _math.sqrt(sq)
        return self._r.norm(x, ord=ord, axis=axis, **kw)


def sym_sqrt(x):
    if isinstance(x, SymReal):
        return x.sqrt()
    return _math.sqrt(x)


class NPProxy:
    def __init__(self, real=_np):
        self._r = real
        self.linalg = _Linalg(real.linalg)

    def __getattr__(self, k):
        return getattr(self._r, k)

    def zeros(self, shape, dtype=None, **kw):
        if dtype is None or _isf(dtype):
            if S.ENGINE is not None:
                return self._r.zeros(shape, dtype=object) + 0.0
            return self._r.zeros(shape, dtype=float)
        return self._r.zeros(shape, dtype=dtype, **kw)

    def array(self, x, dtype=None, **kw):
        if dtype is not None and _isf(dtype):
            dtype = float
            if has_sym(x) or S.ENGINE is not None:
                # under the engine a float array may later receive symbolic values in place
                return self._r.array(x, dtype=object, **kw)
        return self._r.array(x, dtype=dtype, **kw)

    def asarray(self, x, dtype=None, **kw):
        if dtype is not None and _isf(dtype):
            dtype = float
            if has_sym(x):
                return self._r.asarray(x, dtype=object, **kw)
        return self._r.asarray(x, dtype=dtype, **kw)

    def full(self, shape, fill_value, dtype=None, **kw):
        if isinstance(fill_value, SymReal):
            a = self._r.empty(shape, dtype=object)
            a.fill(fill_value)
            return a
        if dtype is not None and _isf(dtype):
            dtype = float
        return self._r.full(shape, fill_value, dtype=dtype, **kw)

    def insert(self, arr, idx, val, **kw):
        if isinstance(val, SymReal):
            arr = self._r.asarray(arr, dtype=object)
        return self._r.insert(arr, idx, val, **kw)

    def linspace(self, a, b, n=50, dtype=None, **kw):
        if isinstance(a, SymReal) or isinstance(b, SymReal):
            n = int(n)
            if n == 1:
                return self._r.array([a], dtype=object)
            out = [a + (b - a) * i / (n - 1) for i in range(n - 1)] + [b + 0 * a]
            return self._r.array(out, dtype=object)
        if dtype is not None and _isf(dtype):
            dtype = float
        return self._r.linspace(a, b, n, dtype=dtype, **kw)

    def sum(self, a, axis=None, **kw):
        if axis is None and has_sym(a):
            return fold_sum(self._r.asarray(a, dtype=object).ravel())
        if axis == 0 and has_sym(a):
            arr = self._r.asarray(a, dtype=object)
            if arr.ndim == 1:
                return fold_sum(arr)
            out = arr[0]
            for row in arr[1:]:
                out = out + row
            return out
        return self._r.sum(a, axis=axis, **kw)

    def mean(self, a, axis=None, **kw):
        if axis is None and has_sym(a):
            v = list(self._r.asarray(a, dtype=object).ravel())
            if isinstance(a, (_pd.DataFrame, _pd.Series)):
                # pandas reductions skip missing values
                v = [i for i in v if not (isinstance(i, float) and i != i)]
            return fold_sum(v) / len(v)
        return self._r.mean(a, axis=axis, **kw)

    def sqrt(self, a, **kw):
        if isinstance(a, SymReal):
            return a.sqrt()
        return self._r.sqrt(a, **kw)

    def exp(self, a, **kw):
        if isinstance(a, SymReal):
            return a.exp()
        return self._r.exp(a, **kw)

    def log(self, a, **kw):
        if isinstance(a, SymReal):
            return a.log()
        return self._r.log(a, **kw)

    def log1p(self, a, **kw):
        if isinstance(a, SymReal):
            return a.log1p()
        return self._r.log1p(a, **kw)

    def log10(self, a, **kw):
        if isinstance(a, SymReal):
            return a.log10()
        return self._r.log10(a, **kw)

    def abs(self, a, **kw):
        if isinstance(a, SymReal):
            return abs(a)
        if has_sym(a):
            arr = self._r.asarray(a, dtype=object)
            out = self._r.empty(arr.shape, dtype=object)
            for i, v in self._r.ndenumerate(arr):
                out[i] = builtins.abs(v)
            if isinstance(a, _pd.Series):
                return _pd.Series(out, index=a.index, dtype=object)
            if isinstance(a, _pd.DataFrame):
                return _pd.DataFrame(out, index=a.index, columns=a.columns, dtype=object)
            return out
        return self._r.abs(a, **kw)

    absolute = abs

    def square(self, a, **kw):
        if has_sym(a):
            return a * a
        return self._r.square(a, **kw)

    def isnan(self, a, **kw):
        if isinstance(a, SymReal):
            return False
        if has_sym(a):
            arr = self._r.asarray(a, dtype=object)
            return self._r.array(
                [False if isinstance(i, SymReal) else bool(self._r.isnan(i)) for i in arr.ravel()]
            ).reshape(arr.shape)
        return self._r.isnan(a, **kw)

    def sign(self, a, **kw):
        if isinstance(a, SymReal):
            return 1.0 if bool(a > 0) else (-1.0 if bool(a < 0) else 0.0)
        return self._r.sign(a, **kw)

    def floor(self, a, **kw):
        if isinstance(a, SymReal):
            return MATH.floor(a)
        return self._r.floor(a, **kw)

    def ceil(self, a, **kw):
        if isinstance(a, SymReal):
            return a.__ceil__()
        return self._r.ceil(a, **kw)

    def trunc(self, a, **kw):
        if isinstance(a, SymReal):
            return a.__trunc__()
        return self._r.trunc(a, **kw)

    def rint(self, a, **kw):
        if isinstance(a, SymReal):
            return a.__round__()
        return self._r.rint(a, **kw)

    def round(self, a, decimals=0, **kw):  # noqa: A003
        if isinstance(a, SymReal):
            return a.__round__(decimals)
        return self._r.round(a, decimals, **kw)

    around = round

    def isclose(self, a, b, rtol=1e-05, atol=1e-08, **kw):
        if isinstance(a, SymReal) or isinstance(b, SymReal):
            return abs(a - b) <= atol + rtol * abs(b)
        return self._r.isclose(a, b, rtol=rtol, atol=atol, **kw)

    def allclose(self, a, b, rtol=1e-05, atol=1e-08, **kw):
        if has_sym(a) or has_sym(b):
            fa = self._r.asarray(a, dtype=object).ravel()
            fb = self._r.asarray(b, dtype=object).ravel()
            if len(fa) != len(fb):
                return bool(self._r.allclose(a, b, rtol=rtol, atol=atol, **kw))
            return all(bool(self.isclose(x, y, rtol=rtol, atol=atol)) if (isinstance(x, SymReal) or isinstance(y, SymReal))
                       else bool(self._r.isclose(x, y, rtol=rtol, atol=atol)) for x, y in zip(fa, fb))
        return self._r.allclose(a, b, rtol=rtol, atol=atol, **kw)

    def dot(self, a, b, **kw):
        return self._r.dot(a, b, **kw)

    def atleast_1d(self, *a):
        return self._r.atleast_1d(*a)

    def atleast_2d(self, *a):
        return self._r.atleast_2d(*a)


class MathProxy:
    """`math` for rate functions and generated modules: UF-backed transcendental functions."""

    def __getattr__(self, k):
        return getattr(_math, k)

    @staticmethod
    def _u(name, x, *more):
        if isinstance(x, SymReal) or any(isinstance(m, SymReal) for m in more):
            return None
        return getattr(_math, name)(x, *more)

    def sqrt(self, x):
        return x.sqrt() if isinstance(x, SymReal) else _math.sqrt(x)

    def exp(self, x):
        return x.exp() if isinstance(x, SymReal) else _math.exp(x)

    def log(self, x, *base):
        if base:
            if isinstance(x, SymReal) or isinstance(base[0], SymReal):
                return self.log(x) / self.log(base[0])
            return _math.log(x, *base)
        return x.log() if isinstance(x, SymReal) else _math.log(x)

    def log10(self, x):
        return x.log10() if isinstance(x, SymReal) else _math.log10(x)

    def sin(self, x):
        return x.sin() if isinstance(x, SymReal) else _math.sin(x)

    def cos(self, x):
        return x.cos() if isinstance(x, SymReal) else _math.cos(x)

    def tan(self, x):
        return x.tan() if isinstance(x, SymReal) else _math.tan(x)

    def tanh(self, x):
        return x.tanh() if isinstance(x, SymReal) else _math.tanh(x)

    def pow(self, x, y):
        if isinstance(x, SymReal) or isinstance(y, SymReal):
            return x**y
        return _math.pow(x, y)

    def fabs(self, x):
        return abs(x) if isinstance(x, SymReal) else _math.fabs(x)

    def isnan(self, x):
        return False if isinstance(x, SymReal) else _math.isnan(x)

    def floor(self, x):
        if isinstance(x, SymReal):
            return SymReal(z3.ToReal(z3.ToInt(x.t)))
        return _math.floor(x)

    def ceil(self, x):
        if isinstance(x, SymReal):
            return SymReal(-z3.ToReal(z3.ToInt(-x.t)))
        return _math.ceil(x)


PD = PDProxy()
NP = NPProxy()
MATH = MathProxy()

_SAVED = []


def install(modules, float_shim=(), isinstance_shim=(), extra=None):
    """Rebind module globals of the given (imported) module objects to the proxies."""
    for mod in modules:
        for name, proxy in (("pd", PD), ("np", NP), ("math", MATH)):
            if name in mod.__dict__ and not isinstance(mod.__dict__[name], type(proxy)):
                _SAVED.append((mod, name, mod.__dict__[name], True))
                mod.__dict__[name] = proxy
    for mod in float_shim:
        _SAVED.append((mod, "float", mod.__dict__.get("float"), "float" in mod.__dict__))
        mod.__dict__["float"] = sfloat
    for mod in isinstance_shim:
        _SAVED.append((mod, "isinstance", mod.__dict__.get("isinstance"), "isinstance" in mod.__dict__))
        mod.__dict__["isinstance"] = sisinstance
    for mod, name, val in extra or ():
        _SAVED.append((mod, name, mod.__dict__.get(name), name in mod.__dict__))
        mod.__dict__[name] = val


def uninstall():
    while _SAVED:
        mod, name, val, had = _SAVED.pop()
        if had:
            mod.__dict__[name] = val
        else:
            mod.__dict__.pop(name, None)
